package alter

import (
	"context"
	"encoding/hex"
	"encoding/json"
	"fmt"
	"os"
	"reflect"
	"runtime"
	"sort"
	"strings"
	"sync"
	"sync/atomic"
	"time"

	"github.com/getlantern/bytemap"
	"github.com/getlantern/goexpr"
	"github.com/getlantern/zenodb"
	"github.com/getlantern/zenodb/core"
	"github.com/getlantern/zenodb/encoding"
	"github.com/getlantern/zenodb/sql"

	"zvh/dbk"
	"zvh/gen"
	"zvh/hk"
)

const (
	findingWavg = "C15-wavg-avg-identity"
)

func seqUntil(s []byte) int64 { return encoding.Sequence(s).UntilInt() }

// inst is one embedded database holding table t.  The database is opened directly (not through
// dbk.Open) to install a DBOpts.Panic handler: after Close, the table's WAL reader goroutine of a
// closed instance keeps polling and calls db.Panic once the directory is gone; that must not take
// the harness process down.  A panic of a live instance is recorded and reported.
type inst struct {
	db       *zenodb.DB
	dir      string
	inserted int64
	closed   int32
	mu       sync.Mutex
	panics   []string
}

func openInst(dir string) (*inst, error) {
	if dir == "" {
		d, err := os.MkdirTemp("", "zvh-alter-*")
		if err != nil {
			return nil, err
		}
		dir = d
	}
	in := &inst{dir: dir}
	db, err := zenodb.NewDB(&zenodb.DBOpts{Dir: dir, VirtualTime: true, IterationCoalesceInterval: time.Millisecond,
		Panic: func(err interface{}) {
			if atomic.LoadInt32(&in.closed) == 0 {
				in.mu.Lock()
				in.panics = append(in.panics, fmt.Sprint(err))
				in.mu.Unlock()
			}
			runtime.Goexit()
		}})
	if err != nil {
		return nil, err
	}
	in.db = db
	return in, nil
}

func (in *inst) close() {
	atomic.StoreInt32(&in.closed, 1)
	in.db.Close()
	in.db.VerifForget()
}

func (in *inst) closeAndRemove() {
	in.close()
	os.RemoveAll(in.dir)
}

func (in *inst) panicked() string {
	in.mu.Lock()
	defer in.mu.Unlock()
	return strings.Join(in.panics, "; ")
}

// apply creates or alters table t through the public API (ApplySchema -> CreateTable / table.Alter).
func (in *inst) apply(b Base, fs []FDef, whereC int) error {
	var err error
	if pn := hk.Recover(func() {
		err = in.db.ApplySchema(zenodb.Schema{tableName: &zenodb.TableOpts{Name: tableName, RetentionPeriod: b.Retention,
			SQL: tableSQL(b, fs, whereC), MinFlushLatency: 10000 * time.Hour, MaxFlushLatency: 20000 * time.Hour}})
	}); pn != nil {
		return fmt.Errorf("panic: %v", pn)
	}
	if err != nil {
		return err
	}
	// the row store installs its first memstore asynchronously (a scan before that dereferences nil)
	for i := 0; i < 20000 && !in.db.VerifReady(tableName); i++ {
		time.Sleep(100 * time.Microsecond)
	}
	return nil
}

// quiesce waits until every insert handed to the database has been applied to the memstore.
func (in *inst) quiesce() bool {
	deadline := time.Now().Add(10 * time.Second)
	for in.db.VerifProcessed(tableName) < in.inserted || !in.db.VerifAllApplied(tableName) {
		if time.Now().After(deadline) {
			return false
		}
		time.Sleep(200 * time.Microsecond)
	}
	return true
}

func (in *inst) insert(p dbk.Point) (err error) {
	if pn := hk.Recover(func() { err = in.db.Insert(streamName, p.TS, p.Dims, p.Vals) }); pn != nil {
		return fmt.Errorf("panic: %v", pn)
	}
	if err == nil {
		in.inserted++
	}
	return err
}

func (in *inst) rawScan(cf core.Fields, mem bool) ([]dbk.RawRow, error) {
	var rows []dbk.RawRow
	err := in.db.VerifIterate(context.Background(), tableName, cf, mem, func(key bytemap.ByteMap, vals []encoding.Sequence) (bool, error) {
		rows = append(rows, dbk.RawRow{Key: key.AsMap(), Cols: vals})
		return true, nil
	})
	return rows, err
}

func (in *inst) coreFields(names []string) core.Fields {
	tf := in.db.VerifFields(tableName)
	var out core.Fields
	for _, n := range names {
		for _, f := range tf {
			if f.Name == n {
				out = append(out, f)
				break
			}
		}
	}
	return out
}

func (in *inst) scan(fs []FDef, mem bool) ([]dbk.RawRow, error) {
	cf := in.coreFields(names(fs))
	if len(cf) != len(fs) {
		return nil, fmt.Errorf("table has fields %v, wanted %v", in.db.VerifFields(tableName), names(fs))
	}
	var rows []dbk.RawRow
	var err error
	if pn := hk.Recover(func() { rows, err = in.rawScan(cf, mem) }); pn != nil {
		return nil, fmt.Errorf("panic: %v", pn)
	}
	return rows, err
}

func isUnset(cells []interface{}) bool {
	for _, c := range cells {
		for _, v := range c.(map[string]interface{}) {
			if v != nil {
				return false
			}
		}
	}
	return true
}

// view is the semantic content of a raw scan: "key|period end|field name" -> state (decoded
// cells; raw bytes for the wide column), for the periods ending after liveAfter whose state has
// at least one cell set.
func view(fs []FDef, rows []dbk.RawRow, res time.Duration, liveAfter int64) map[string]string {
	out := map[string]string{}
	for _, r := range rows {
		ks := dbk.KeyString(r.Key)
		for i, f := range fs {
			if i >= len(r.Cols) || len(r.Cols[i]) == 0 {
				continue
			}
			s := r.Cols[i]
			w := f.Width()
			for p := 0; p < s.NumPeriods(w); p++ {
				end := s.UntilInt() - int64(p)*int64(res)
				if end <= liveAfter {
					continue
				}
				state := s[8+p*w : 8+(p+1)*w]
				k := fmt.Sprintf("%s|%d|%s", ks, end, f.Name)
				if f.Ptile {
					if strings.Trim(string(state), "\x00") == "" {
						continue
					}
					out[k] = hex.EncodeToString(state)
					continue
				}
				cells, _ := f.Node.DecodeCells(state)
				if isUnset(cells) {
					continue
				}
				b, _ := json.Marshal(cells)
				out[k] = string(b)
			}
		}
	}
	return out
}

func fieldOfViewKey(k string) string { return k[strings.LastIndex(k, "|")+1:] }

// restrict keeps the entries of the given field names.
func restrict(v map[string]string, keep map[string]bool) map[string]string {
	out := map[string]string{}
	for k, x := range v {
		if keep[fieldOfViewKey(k)] {
			out[k] = x
		}
	}
	return out
}

// diffViews returns one differing entry ("" if equal) and the set of field names that differ.
func diffViews(a, b map[string]string) (string, map[string]bool) {
	d := ""
	fields := map[string]bool{}
	var keys []string
	for k := range a {
		keys = append(keys, k)
	}
	for k := range b {
		if _, ok := a[k]; !ok {
			keys = append(keys, k)
		}
	}
	sort.Strings(keys)
	for _, k := range keys {
		x, okA := a[k]
		y, okB := b[k]
		if okA && okB && x == y {
			continue
		}
		fields[fieldOfViewKey(k)] = true
		if d == "" {
			if !okA {
				x = "<absent>"
			}
			if !okB {
				y = "<absent>"
			}
			d = fmt.Sprintf("%s: %s vs %s", k, x, y)
		}
	}
	return d, fields
}

func rowsJSON(fs []FDef, rows []dbk.RawRow) map[string]interface{} {
	out := map[string]interface{}{}
	for _, r := range rows {
		cols := make([]interface{}, len(fs))
		for i, f := range fs {
			if i < len(r.Cols) {
				cols[i] = decodeCol(f, r.Cols[i])
			}
		}
		out[dbk.KeyString(r.Key)] = map[string]interface{}{"key": dbk.KeyJSON(r.Key), "cols": cols}
	}
	return out
}

// modelRowsJSON re-keys the model's rows; the wide column is reduced to its shape.
func modelRowsJSON(fs []FDef, raw json.RawMessage) (map[string]interface{}, error) {
	m, err := dbk.ModelRowsJSON(raw)
	if err != nil {
		return nil, err
	}
	for _, v := range m {
		row := v.(map[string]interface{})
		cols, _ := row["cols"].([]interface{})
		for i, f := range fs {
			if !f.Ptile || i >= len(cols) || cols[i] == nil {
				continue
			}
			c := cols[i].(map[string]interface{})
			cells, _ := c["cells"].([]interface{})
			cols[i] = map[string]interface{}{"ptile": true, "hi": c["hi"], "periods": len(cells)}
		}
	}
	return m, nil
}

func sameJSON(a interface{}, b interface{}) bool {
	ab, _ := json.Marshal(a)
	bb, _ := json.Marshal(b)
	var x, y interface{}
	json.Unmarshal(ab, &x)
	json.Unmarshal(bb, &y)
	return reflect.DeepEqual(x, y)
}

func knownListed(id string) bool {
	path := os.Getenv("ZV_KNOWN")
	if path == "" {
		return true // stand-alone run of the engine: the ids this engine knows are taken as listed
	}
	b, err := os.ReadFile(path)
	if err != nil {
		return false
	}
	var kf struct {
		Known []struct {
			ID       string `json:"id"`
			Property string `json:"property"`
		} `json:"known"`
	}
	if json.Unmarshal(b, &kf) != nil {
		return false
	}
	for _, k := range kf.Known {
		if k.ID == id {
			return true
		}
	}
	return false
}

type pfail struct {
	msg     string
	finding string
}

// isAvgSwap: field f of the new definition has the name and the printed form of a field of the
// previous definition but another expression (AVG(b) vs WAVG(b, a)).
func isAvgSwap(prev []FDef, f FDef) bool {
	for _, g := range prev {
		if g.Name == f.Name && g.Ident() != f.Ident() && g.Printed() == f.Printed() {
			return true
		}
	}
	return false
}

func identSet(fs []FDef) map[string]bool {
	m := map[string]bool{}
	for _, f := range fs {
		m[f.Ident()] = true
	}
	return m
}

// retainedAll are the fields (by the property's identity) present in every definition of the history.
func retainedAll(sc *Script) []FDef {
	keep := identSet(sc.Fields)
	for _, o := range sc.Ops {
		if o.Kind == "alter" || (o.Kind == "restart" && o.Fields != nil) {
			cur := identSet(o.Fields)
			for k := range keep {
				if !cur[k] {
					delete(keep, k)
				}
			}
		}
	}
	var out []FDef
	for _, f := range sc.Fields {
		if keep[f.Ident()] {
			out = append(out, f)
		}
	}
	return out
}

func checkFields(in *inst, fs []FDef) error {
	got := in.db.VerifFields(tableName)
	want := withPoints(fs)
	if len(got) != len(want) {
		return fmt.Errorf("table has %d fields %v, definition has %d", len(got), got, len(want))
	}
	for i := range got {
		if got[i].String() != want[i].Printed() {
			return fmt.Errorf("field %d: table has %v, definition has %v", i, got[i], want[i].Printed())
		}
	}
	return nil
}

// runScript executes one history on the real code (and its never-altered twin), evaluates the
// implementation-only oracles, then runs the model on the same history and compares.
func runScript(ctx *hk.RunCtx, sc *Script, idx uint64, label string) error {
	hit := ctx.Res.Hit
	b := sc.Base
	mainI, err := openInst("")
	if err != nil {
		return err
	}
	defer func() { mainI.closeAndRemove() }()
	if err := mainI.apply(b, sc.Fields, sc.WhereC); err != nil {
		hit("create-table-error")
		ctx.Res.Note("create table failed: %v (%s)", err, tableSQL(b, sc.Fields, sc.WhereC))
		return nil
	}
	if err := checkFields(mainI, sc.Fields); err != nil {
		hit("schema-mismatch")
		ctx.Res.Note("schema mismatch: %v", err)
		return nil
	}
	keepAll := retainedAll(sc)
	var twin *inst
	if len(keepAll) > 0 {
		twin, err = openInst("")
		if err != nil {
			return err
		}
		defer func() { twin.closeAndRemove() }()
		if err := twin.apply(b, keepAll, -1); err != nil {
			ctx.Res.Note("twin create failed: %v", err)
			twin = nil
		}
	} else {
		hit("twin:no-field-retained-throughout")
	}

	cur := copyDefs(sc.Fields)
	where := sc.WhereC
	hwm := int64(-1 << 62)
	tainted := map[string]bool{} // field names whose stored data the AVG/WAVG identity collision has mixed
	var fails []pfail
	mops := []interface{}{}
	implOuts := []interface{}{}
	var scanDefs [][]FDef
	nIngest, nAlter, nRestart, nFlush := 0, 0, 0, 0

	settle := func() bool {
		if !mainI.quiesce() || (twin != nil && !twin.quiesce()) {
			return false
		}
		if n := mainI.db.VerifNow(); n > hwm {
			hwm = n
		}
		return true
	}
	live := func() int64 { return hwm - int64(b.Retention) }
	scanAll := func(in *inst, fs []FDef, mem bool) map[string]string {
		all := withPoints(fs)
		rows, err := in.scan(all, mem)
		if err != nil {
			hit("scan-error")
			ctx.Res.Note("scan error: %v", err)
		}
		return view(all, rows, b.Res, live())
	}
	scanAllEver := func(in *inst, fs []FDef) map[string]string {
		all := withPoints(fs)
		rows, _ := in.scan(all, true)
		return view(all, rows, b.Res, -1<<62)
	}

	for oi, o := range sc.Ops {
		switch o.Kind {
		case "ingest":
			if err := mainI.insert(*o.P); err != nil {
				hit("insert-error")
				continue
			}
			nIngest++
			mp := o.P.ModelJSON(whereOf(b, cur, where))
			if twin != nil && mp["where"].(bool) {
				twin.insert(*o.P)
			}
			mops = append(mops, map[string]interface{}{"op": "ingest", "p": mp})
			implOuts = append(implOuts, nil)
			scanDefs = append(scanDefs, nil)
		case "flush":
			if !settle() {
				ctx.Res.Inconclusive++
				return nil
			}
			before := scanAll(mainI, cur, true)
			mainI.db.VerifForceFlush(tableName)
			if twin != nil {
				twin.db.VerifForceFlush(tableName)
			}
			after := scanAll(mainI, cur, true)
			disk := scanAll(mainI, cur, false)
			if d, _ := diffViews(before, after); d != "" {
				fails = append(fails, pfail{msg: fmt.Sprintf("op %d: a flush changed the stored values (memstore-inclusive view before vs after): %s", oi, d)})
			} else if d, _ := diffViews(after, disk); d != "" {
				fails = append(fails, pfail{msg: fmt.Sprintf("op %d: after the flush the disk-only view differs from the memstore-inclusive one: %s", oi, d)})
			}
			nFlush++
			mops = append(mops, map[string]interface{}{"op": "flush"})
			implOuts = append(implOuts, map[string]interface{}{"flushCount": mainI.db.VerifFlushCount(tableName)})
			scanDefs = append(scanDefs, nil)
		case "alter":
			if !settle() {
				ctx.Res.Inconclusive++
				return nil
			}
			before := scanAll(mainI, cur, true)
			fcBefore := mainI.db.VerifFlushCount(tableName)
			if err := mainI.apply(b, o.Fields, o.WhereC); err != nil {
				hit("alter-error")
				ctx.Res.Note("alter failed: %v (%s)", err, tableSQL(b, o.Fields, o.WhereC))
				return nil
			}
			// the field update is handed to processInserts synchronously; its flush runs there
			// before the next request is served, so a forced flush round trip waits for it
			mainI.db.VerifForceFlush(tableName)
			fcAfter := mainI.db.VerifFlushCount(tableName)
			ok := false
			for i := 0; i < 20000; i++ {
				if checkFields(mainI, o.Fields) == nil {
					ok = true
					break
				}
				time.Sleep(100 * time.Microsecond)
			}
			if !ok {
				ctx.Res.Disagree(hk.Disagreement{Kind: "model-vs-impl", Case: request(sc, mops), Index: idx,
					Detail: fmt.Sprintf("op %d: table fields after alter: %v", oi, checkFields(mainI, o.Fields))})
				return nil
			}
			after := scanAll(mainI, o.Fields, true)
			afterEver := scanAllEver(mainI, o.Fields)
			prevIdents := identSet(cur)
			retained, added := map[string]bool{"_points": true}, map[string]bool{}
			for _, f := range o.Fields {
				if prevIdents[f.Ident()] {
					retained[f.Name] = true
				} else {
					added[f.Name] = true
				}
			}
			// oracle (i)/(iv): every retained field reads the same immediately before and after
			if d, _ := diffViews(restrict(before, retained), restrict(after, retained)); d != "" {
				what := "an alter changed the stored values of a retained field"
				if o.WhereC != where {
					what = "an alter (with a new WHERE) changed what was stored before it"
				}
				fails = append(fails, pfail{msg: fmt.Sprintf("op %d: %s: %s", oi, what, d)})
			}
			// oracle (ii): every added field is empty for all periods
			var staleImpl []string
			if d, fs := diffViews(restrict(afterEver, added), map[string]string{}); d != "" {
				for n := range fs {
					staleImpl = append(staleImpl, n)
				}
				sort.Strings(staleImpl)
				allSwap := true
				for _, n := range staleImpl {
					if !isAvgSwap(cur, o.Fields[hasName(o.Fields, n)]) {
						allSwap = false
					}
				}
				f := pfail{msg: fmt.Sprintf("op %d: added field is not empty right after the alter: %s", oi, d)}
				if allSwap && knownListed(findingWavg) {
					f.finding = findingWavg
				}
				fails = append(fails, f)
			}
			for _, f := range o.Fields {
				if added[f.Name] && isAvgSwap(cur, f) {
					tainted[f.Name] = true
				}
			}
			for n := range tainted {
				if hasName(o.Fields, n) < 0 {
					delete(tainted, n)
				}
			}
			nAlter++
			_ = fcBefore
			mops = append(mops, map[string]interface{}{"op": "alter", "fields": fieldsJSON(o.Fields), "where": whereJSON(o.WhereC)})
			implOuts = append(implOuts, map[string]interface{}{"stale": staleImpl})
			scanDefs = append(scanDefs, nil)
			// the forced flush round trip is a flush of its own when the alter was ignored
			mops = append(mops, map[string]interface{}{"op": "flush"})
			implOuts = append(implOuts, map[string]interface{}{"flushCount": fcAfter})
			scanDefs = append(scanDefs, nil)
			cur, where = copyDefs(o.Fields), o.WhereC
		case "restart":
			if !settle() {
				ctx.Res.Inconclusive++
				return nil
			}
			before := scanAll(mainI, cur, true)
			reopen := func(in *inst, fs []FDef, w int) (*inst, error) {
				dir := in.dir
				in.close()
				n, err := openInst(dir)
				if err != nil {
					return nil, err
				}
				if err := n.apply(b, fs, w); err != nil {
					n.closeAndRemove()
					return nil, err
				}
				return n, nil
			}
			next, nw := cur, where
			if o.Fields != nil {
				next, nw = o.Fields, o.WhereC
			}
			n, err := reopen(mainI, next, nw)
			if err != nil {
				os.RemoveAll(mainI.dir)
				ctx.Res.Inconclusive++
				ctx.Res.Note("restart failed: %v", err)
				return nil
			}
			mainI = n
			if twin != nil {
				n, err := reopen(twin, keepAll, -1)
				if err != nil {
					os.RemoveAll(twin.dir)
					ctx.Res.Inconclusive++
					return nil
				}
				twin = n
			}
			if err := checkFields(mainI, next); err != nil {
				ctx.Res.Note("fields after restart: %v", err)
			}
			after := scanAll(mainI, next, true)
			retained := map[string]bool{"_points": true}
			added := map[string]bool{}
			prevIdents := identSet(cur)
			for _, f := range next {
				if prevIdents[f.Ident()] {
					retained[f.Name] = true
				} else {
					added[f.Name] = true
				}
			}
			if d, _ := diffViews(restrict(before, retained), restrict(after, retained)); d != "" {
				fails = append(fails, pfail{msg: fmt.Sprintf("op %d: a restart changed the stored values: %s", oi, d)})
			}
			if d, _ := diffViews(restrict(scanAllEver(mainI, next), added), map[string]string{}); d != "" {
				fails = append(fails, pfail{msg: fmt.Sprintf("op %d: field added by a restart with a new definition is not empty: %s", oi, d)})
			}
			nRestart++
			cur, where = copyDefs(next), nw
			mops = append(mops, map[string]interface{}{"op": "reopen", "fields": fieldsJSON(cur), "where": whereJSON(where)})
			implOuts = append(implOuts, nil)
			scanDefs = append(scanDefs, nil)
		case "iterate":
			if !settle() {
				ctx.Res.Inconclusive++
				return nil
			}
			all := withPoints(cur)
			fdefs := all
			mo := map[string]interface{}{"op": "iterate", "mem": o.Mem}
			if o.Sel != nil {
				fdefs = nil
				var ns []string
				for _, n := range o.Sel {
					if i := hasName(all, n); i >= 0 {
						fdefs = append(fdefs, all[i])
						ns = append(ns, n)
					}
				}
				if len(fdefs) == 0 {
					continue
				}
				mo["fields"] = ns
				if o.Note == "only-added" {
					hit("scan:only-added-fields")
				} else if hasName(fdefs, "_points") < 0 {
					hit("scan:subset-without-_points")
				}
			}
			rows, err := mainI.scan(fdefs, o.Mem)
			if err != nil {
				hit("scan-error")
				ctx.Res.Note("scan error: %v", err)
			}
			// implementation-only: a scan of some fields returns, for those fields, what the scan
			// of all fields returns (catches rows lost by a partial selection, D17)
			full, _ := mainI.scan(all, o.Mem)
			keep := map[string]bool{}
			for _, f := range fdefs {
				keep[f.Name] = true
			}
			if d, _ := diffViews(view(fdefs, rows, b.Res, -1<<62), restrict(view(all, full, b.Res, -1<<62), keep)); d != "" {
				fails = append(fails, pfail{msg: fmt.Sprintf("op %d: a scan selecting %v returns other values than the scan of all fields: %s", oi, names(fdefs), d)})
			}
			mops = append(mops, mo)
			implOuts = append(implOuts, rowsJSON(fdefs, rows))
			scanDefs = append(scanDefs, fdefs)
		}
	}
	req := request(sc, mops)
	ctx.Res.Count(req, nIngest >= 2 && nAlter >= 1)
	hit(fmt.Sprintf("alters:%d", min(nAlter, 5)))
	hit(fmt.Sprintf("restarts:%d", min(nRestart, 3)))
	hit(fmt.Sprintf("flushes:%d", min(nFlush, 4)))
	if label != "" {
		hit("hand-made:" + label)
	}

	out, err := ctx.Model.Call(req)
	if err != nil {
		return err
	}
	var mo struct {
		Outs []struct {
			Rows        json.RawMessage `json:"rows"`
			Skipped     int             `json:"skipped"`
			Ignored     *bool           `json:"ignored"`
			FlushCount  *int            `json:"flushCount"`
			MemEmpty    bool            `json:"memEmpty"`
			Stale       []string        `json:"stale"`
			WhereAgrees *bool           `json:"whereAgrees"`
		} `json:"outs"`
		StepMismatch []interface{} `json:"stepMismatch"`
		Spec         struct {
			Rows []struct {
				Key    map[string]interface{} `json:"key"`
				Period string                 `json:"period"`
				Cells  [][]interface{}        `json:"cells"`
			} `json:"rows"`
			Fields []string `json:"fields"`
		} `json:"spec"`
	}
	if err := json.Unmarshal(out, &mo); err != nil {
		return err
	}

	// final oracles (implementation only, and implementation vs the property's reference semantics)
	if settle() {
		final := scanAll(mainI, cur, true)
		// (iii) the never-altered twin
		if twin != nil {
			keep := map[string]bool{"_points": true}
			for _, f := range keepAll {
				keep[f.Name] = true
			}
			tv := scanAll(twin, keepAll, true)
			if d, _ := diffViews(restrict(final, keep), tv); d != "" {
				fails = append(fails, pfail{msg: "final view of the fields retained throughout differs from the never-altered twin (altered vs twin): " + d})
			}
		}
		// (v) raw-point reference semantics with alters (ASpec), wide column excluded
		vSpec := map[string]string{}
		for _, r := range mo.Spec.Rows {
			var period int64
			fmt.Sscan(r.Period, &period)
			if period <= live() {
				continue
			}
			ks := modelKeyString(r.Key)
			for fi, cells := range r.Cells {
				if fi >= len(mo.Spec.Fields) || isUnset(cells) {
					continue
				}
				bs, _ := json.Marshal(cells)
				vSpec[fmt.Sprintf("%s|%d|%s", ks, period, mo.Spec.Fields[fi])] = string(bs)
			}
		}
		noPtile := map[string]bool{}
		for _, f := range withPoints(cur) {
			if !f.Ptile {
				noPtile[f.Name] = true
			}
		}
		if d, fs := diffViews(restrict(final, noPtile), restrict(vSpec, noPtile)); d != "" {
			f := pfail{msg: "final view differs from the reference semantics (stored vs accumulation of the points processed while the field existed): " + d}
			onlyTainted := true
			for n := range fs {
				if !tainted[n] {
					onlyTainted = false
				}
			}
			if onlyTainted && knownListed(findingWavg) {
				f.finding = findingWavg
			}
			fails = append(fails, f)
		}
	}
	if p := mainI.panicked(); p != "" {
		ctx.Res.Disagree(hk.Disagreement{Kind: "model-vs-impl", Case: req, Index: idx, Detail: "the database panicked: " + p})
		return nil
	}
	for _, f := range fails {
		ctx.Res.Disagree(hk.Disagreement{Kind: "property", Case: req, Detail: f.msg, PropertyFails: true, Prop: "C15",
			Finding: f.finding, Index: idx})
	}

	if len(mo.StepMismatch) > 0 {
		ctx.Res.Disagree(hk.Disagreement{Kind: "model-vs-model", Case: req, Model: mo.StepMismatch,
			Detail: "store model vs one-column model (Col.astep) on a retained column, or Alter.lean vs Store.lean definitions", Index: idx})
	}
	if len(mo.Outs) != len(implOuts) {
		return fmt.Errorf("model returned %d outs for %d ops", len(mo.Outs), len(implOuts))
	}
	for i, io := range implOuts {
		m := mo.Outs[i]
		if m.WhereAgrees != nil && !*m.WhereAgrees {
			ctx.Res.Disagree(hk.Disagreement{Kind: "model-vs-impl", Case: req, Index: idx,
				Detail: fmt.Sprintf("op %d: WHERE bit of the point differs between harness (table's WHERE at that time) and model", i)})
			return nil
		}
		if io == nil {
			continue
		}
		if m.Ignored != nil {
			a := io.(map[string]interface{})
			if *m.Ignored {
				hit("model:alter-ignored-fields-unchanged")
			} else if m.MemEmpty {
				hit("model:alter-with-empty-memstore")
			} else {
				hit("model:alter-with-flush")
			}
			si, _ := a["stale"].([]string)
			sm := append([]string(nil), m.Stale...)
			sort.Strings(sm)
			if !reflect.DeepEqual(append([]string{}, si...), append([]string{}, sm...)) {
				ctx.Res.Disagree(hk.Disagreement{Kind: "model-vs-impl", Case: req, Impl: si, Model: sm, Index: idx,
					Detail: fmt.Sprintf("op %d: added fields that are not empty after the alter differ", i)})
				return nil
			}
			if len(sm) > 0 {
				hit("model:added-field-not-empty")
			}
			continue
		}
		if m.FlushCount != nil {
			a := io.(map[string]interface{})
			if a["flushCount"].(int) != *m.FlushCount {
				ctx.Res.Disagree(hk.Disagreement{Kind: "model-vs-impl", Case: req, Impl: a, Model: *m.FlushCount, Index: idx,
					Detail: fmt.Sprintf("op %d: number of file rewrites since the table was opened differs (impl %v, model %v)", i, a["flushCount"], *m.FlushCount)})
				return nil
			}
			continue
		}
		mr, err := modelRowsJSON(scanDefs[i], m.Rows)
		if err != nil {
			return err
		}
		if m.Skipped > 0 {
			hit("model:scan-skipped-file-rows-without-requested-column")
		}
		if !sameJSON(io, mr) {
			ctx.Res.Disagree(hk.Disagreement{Kind: "model-vs-impl", Case: req, Impl: io, Model: mr,
				Detail: fmt.Sprintf("raw scan (op %d) differs", i), Index: idx})
			return nil
		}
	}
	return nil
}

func modelKeyString(m map[string]interface{}) string {
	ks := make([]string, 0, len(m))
	for k := range m {
		ks = append(ks, k)
	}
	sort.Strings(ks)
	out := ""
	for _, k := range ks {
		out += fmt.Sprintf("%s=%s;", k, m[k])
	}
	return out
}

func whereJSON(c int) interface{} {
	if c < 0 {
		return nil
	}
	return c
}

// whereOf is the table's WHERE as the table parses it (nil: none).
func whereOf(b Base, fs []FDef, c int) goexpr.Expr {
	if c < 0 {
		return nil
	}
	q, err := sql.Parse(tableSQL(b, fs, c))
	if err != nil {
		return gen.Conds[c]
	}
	return q.Where
}

func request(sc *Script, mops []interface{}) map[string]interface{} {
	req := map[string]interface{}{"engine": "alter", "cfg": cfgJSON(sc.Base, sc.Fields), "ops": mops, "script": sc}
	if sc.WhereC >= 0 {
		req["where"] = sc.WhereC
	}
	if os.Getenv("ZVH_ALTER_PREFIX") != "" {
		// compare against the model of the code as found (before repair D14a: AStore.alterPre):
		// used to confirm that the model reproduces the defect exactly, never by ./check
		req["prefix"] = true
	}
	return req
}
