package alter

import (
	"encoding/json"
	"fmt"
	"strings"
	"time"

	"github.com/getlantern/zenodb/core"
	"github.com/getlantern/zenodb/expr"
	"github.com/getlantern/zenodb/sql"

	"zvh/dbk"
	"zvh/gen"
	"zvh/hk"
)

// FDef is one table field of a schema version.  Ptile fields are the wide column
// (PERCENTILE(a, 99, 0, 100, 1): 8 + numCounts*8 bytes per period); they are compared by
// shape (model) and by bytes (implementation-only oracles), never by decoded cells.
type FDef struct {
	Name  string
	Node  *gen.Node `json:",omitempty"`
	Ptile bool      `json:",omitempty"`
}

const ptileSQL = "PERCENTILE(a, 99, 0, 100, 1)"

func (f FDef) Build() expr.Expr {
	if f.Ptile {
		return expr.PERCENTILE("a", 99, 0, 100, 1)
	}
	return f.Node.Build()
}

func (f FDef) SQL() string {
	if f.Ptile {
		return ptileSQL
	}
	return f.Node.SQL()
}

func (f FDef) Width() int { return f.Build().EncodedWidth() }

// JSON renders the expression for the model.
func (f FDef) JSON() map[string]interface{} {
	if f.Ptile {
		n := f.Width()/8 - 1
		return map[string]interface{}{"k": "ptile", "id": 0, "n": n,
			"v": map[string]interface{}{"k": "bounded", "lo": "0", "hi": "100",
				"w": map[string]interface{}{"k": "field", "n": "a"}},
			"p": map[string]interface{}{"k": "const", "v": "99"}}
	}
	return f.Node.JSON()
}

// Ident is the property's identity of a field: name and expression (weight of WAVG included).
func (f FDef) Ident() string {
	b, _ := json.Marshal(f.JSON())
	return f.Name + "=" + string(b)
}

// Printed is the code's identity: core.Field.String().
func (f FDef) Printed() string { return core.NewField(f.Name, f.Build()).String() }

var pointsDef = FDef{Name: "_points", Node: &gen.Node{Kind: "agg", Name: "SUM", Kids: []*gen.Node{{Kind: "field", Name: "_point"}}}}

// withPoints is the stored field list: _points first (table.go addPointsField).
func withPoints(fs []FDef) []FDef { return append([]FDef{pointsDef}, fs...) }

func fieldsJSON(fs []FDef) []interface{} {
	out := []interface{}{}
	for _, f := range withPoints(fs) {
		out = append(out, map[string]interface{}{"name": f.Name, "e": f.JSON()})
	}
	return out
}

// Base is what never changes in a history (table.Alter only replaces fields and WHERE).
type Base struct {
	Res       time.Duration
	Retention time.Duration
	GroupBy   []string // nil: GROUP BY *
}

const tableName = "t"
const streamName = "inbound"

func tableSQL(b Base, fs []FDef, whereC int) string {
	var parts []string
	for _, f := range fs {
		parts = append(parts, fmt.Sprintf("%s AS %s", f.SQL(), f.Name))
	}
	q := fmt.Sprintf("SELECT %s FROM %s", strings.Join(parts, ", "), streamName)
	if whereC >= 0 {
		q += " WHERE " + gen.CondText[whereC]
	}
	if b.GroupBy == nil {
		q += fmt.Sprintf(" GROUP BY *, period(%v)", b.Res)
	} else if len(b.GroupBy) == 0 {
		q += fmt.Sprintf(" GROUP BY period(%v)", b.Res)
	} else {
		q += fmt.Sprintf(" GROUP BY %s, period(%v)", strings.Join(b.GroupBy, ", "), b.Res)
	}
	return q
}

func cfgJSON(b Base, fs []FDef) map[string]interface{} {
	cfg := map[string]interface{}{"fields": fieldsJSON(fs), "res": fmt.Sprint(int64(b.Res)), "retention": fmt.Sprint(int64(b.Retention))}
	if len(b.GroupBy) > 0 {
		cfg["groupBy"] = b.GroupBy
	}
	return cfg
}

var valueFields = []string{"a", "b", "c"}

// parses reports whether zenodb's SQL dialect accepts the expression as a table field (the
// grammar has no comparison / boolean operators between aggregates in the SELECT list).
func parses(n *gen.Node) bool {
	_, err := sql.Parse(fmt.Sprintf("SELECT %s AS f FROM %s GROUP BY period(1s)", n.SQL(), streamName))
	return err == nil
}

// genPool generates the candidate fields of a history: distinct names, generated
// expressions, optionally the wide PERCENTILE column and the AVG/WAVG pair under one name.
func genPool(r *hk.Rng, res time.Duration) (pool []FDef, avgAlt *FDef) {
	o := gen.ExprOpts{Fields: valueFields, MaxDepth: 2, Res: res, NoShift: true, NoUnary: true}
	n := r.Range(3, 5)
	for i := 0; i < n; i++ {
		var node *gen.Node
		if r.Chance(2, 3) {
			node = gen.GenLeaf(r, o)
		} else {
			node = gen.GenExpr(r, o)
		}
		if node.Build().Validate() != nil || node.Build().EncodedWidth() == 0 || !parses(node) {
			node = gen.GenLeaf(r, o)
		}
		pool = append(pool, FDef{Name: fmt.Sprintf("f%d", i), Node: node})
	}
	if r.Chance(1, 3) {
		pool = append(pool, FDef{Name: "pt", Ptile: true})
	}
	if r.Chance(2, 5) {
		avg := &gen.Node{Kind: "avg", Kids: []*gen.Node{{Kind: "field", Name: "b"}, {Kind: "const", Const: 1}}}
		wavg := &gen.Node{Kind: "avg", Kids: []*gen.Node{{Kind: "field", Name: "b"}, {Kind: "field", Name: "a"}}}
		if r.Bool() {
			avg, wavg = wavg, avg
		}
		pool = append(pool, FDef{Name: "x", Node: avg})
		avgAlt = &FDef{Name: "x", Node: wavg}
	}
	return
}

// decodeCol renders an implementation sequence for comparison with the model: decoded
// cells, or for the wide column only the shape.
func decodeCol(f FDef, s []byte) interface{} {
	if len(s) == 0 {
		return nil
	}
	if f.Ptile {
		w := f.Width()
		return map[string]interface{}{"ptile": true, "hi": fmt.Sprint(seqUntil(s)), "periods": (len(s) - 8) / w}
	}
	return dbk.DecodeSeq(f.Node, f.Width(), s)
}
