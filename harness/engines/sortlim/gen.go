package sortlim

import (
	"fmt"
	"strconv"

	"zvh/hk"
)

// ---------------------------------------------------------------- random generation (mock source)

type colType struct {
	T, K string
}

var colTypes = []colType{
	{"int", "byte"}, {"int", "u16"}, {"int", "u32"}, {"int", "u64"}, {"int", "i8"}, {"int", "i16"},
	{"int", "i32"}, {"int", "i64"}, {"int", "int"}, {"int", "int"}, {"float", "f32"}, {"float", "f64"},
	{"str", ""}, {"str", ""}, {"bool", ""}, {"time", ""}, {"other", ""},
}

// pool returns the few values a column of that type draws from (few, so that ties are common).
func pool(t colType) []Val {
	switch t.T {
	case "int":
		switch t.K {
		case "byte", "u16", "u32", "u64", "uint":
			return []Val{{T: "int", K: t.K, V: "1"}, {T: "int", K: t.K, V: "2"}, {T: "int", K: t.K, V: "7"}}
		}
		return []Val{{T: "int", K: t.K, V: "-3"}, {T: "int", K: t.K, V: "0"}, {T: "int", K: t.K, V: "5"}}
	case "float":
		return []Val{{T: "float", K: t.K, V: "-3/2"}, {T: "float", K: t.K, V: "1/4"}, {T: "float", K: t.K, V: "2"}}
	case "str":
		return []Val{{T: "str", V: ""}, {T: "str", V: "a"}, {T: "str", V: "ab"}, {T: "str", V: "b"}}
	case "bool":
		return []Val{{T: "bool", V: false}, {T: "bool", V: true}}
	case "time":
		return []Val{{T: "time", V: strconv.FormatInt(baseTS, 10)}, {T: "time", V: strconv.FormatInt(baseTS+1e9, 10)}, {T: "time", V: strconv.FormatInt(baseTS+2e9, 10)}}
	}
	return []Val{{T: "other", V: 1}, {T: "other", V: 2}}
}

var fieldPool = []string{"-3/2", "0", "1/4", "2", "7"}

type schema struct {
	dims   []string
	types  map[string]colType
	fields []string
}

func genSchema(r *hk.Rng, e *run) schema {
	s := schema{dims: []string{"d1", "d2", "d3"}, types: map[string]colType{}, fields: []string{"v", "w"}}
	for _, d := range s.dims {
		s.types[d] = hk.Pick(r, colTypes)
		e.hit("core:col-type:" + s.types[d].T + s.types[d].K)
	}
	if r.Chance(1, 10) {
		// a selected field with the name of a dimension shadows it (FlatRow.Get looks at fields first)
		s.fields = append(s.fields, "d1")
		e.hit("core:class:field-shadows-dim")
	}
	return s
}

func genRow(r *hk.Rng, s schema, e *run) Row {
	row := Row{TS: baseTS + int64(r.Intn(3))*1e9}
	if r.Chance(1, 12) {
		row.TS += int64(r.Range(-1, 1))
	}
	for _, d := range s.dims { // already sorted by name
		switch {
		case r.Chance(1, 5):
			e.hit("core:dim:missing")
		case r.Chance(1, 10):
			row.Key = append(row.Key, KV{d, nilVal})
			e.hit("core:dim:nil-valued")
		default:
			row.Key = append(row.Key, KV{d, hk.Pick(r, pool(s.types[d]))})
			e.hit("core:dim:value")
		}
	}
	for _, f := range s.fields {
		row.Fields = append(row.Fields, FV{f, hk.Pick(r, fieldPool)})
	}
	return row
}

var keyCols = []string{"d1", "d2", "d3", "v", "w", "d1", "d2", "zz"}

// genKeys: n elements, `_time` at position timePos (or nowhere when -1), random directions.
func genKeys(r *hk.Rng, n int, e *run, tag string) []Key {
	timePos := r.Range(-1, n-1)
	keys := make([]Key, n)
	desc := 0
	for i := range keys {
		if i == timePos {
			keys[i] = Key{"_time", r.Bool()}
		} else {
			keys[i] = Key{hk.Pick(r, keyCols), r.Bool()}
		}
		if keys[i].D {
			desc++
		}
	}
	e.hit(fmt.Sprintf("%s:keys:len=%d", tag, n))
	if timePos >= 0 {
		e.hit(fmt.Sprintf("%s:keys:_time@%d", tag, timePos))
	} else {
		e.hit(tag + ":keys:no-_time")
	}
	switch {
	case n == 0:
	case desc == 0:
		e.hit(tag + ":keys:all-asc")
	case desc == n:
		e.hit(tag + ":keys:all-desc")
	default:
		e.hit(tag + ":keys:mixed-directions")
	}
	return keys
}

func genLimOff(r *hk.Rng, nrows int, e *run, tag string) (limit, offset int) {
	switch r.Intn(4) {
	case 0:
		limit = 0
	case 1:
		limit = nrows + r.Range(0, 2)
	default:
		limit = r.Range(1, nrows+1)
	}
	switch r.Intn(4) {
	case 0:
		offset = 0
	case 1:
		offset = nrows + r.Range(0, 2)
	default:
		offset = r.Range(1, nrows+1)
	}
	switch {
	case limit == 0:
		e.hit(tag + ":limit:absent(0)")
	case limit >= nrows:
		e.hit(tag + ":limit:>=rows")
	default:
		e.hit(tag + ":limit:<rows")
	}
	switch {
	case offset == 0:
		e.hit(tag + ":offset:absent(0)")
	case offset >= nrows:
		e.hit(tag + ":offset:>=rows")
	default:
		e.hit(tag + ":offset:<rows")
	}
	if limit > 0 && offset+limit > nrows && offset < nrows {
		e.hit(tag + ":slice:cut-by-end")
	}
	return
}

func (e *run) coreCase(r *hk.Rng, idx uint64) error {
	s := genSchema(r, e)
	if r.Bool() {
		e.hit("core:kind:less")
		keys := genKeys(r, r.Range(1, 4), e, "core")
		a, b := genRow(r, s, e), genRow(r, s, e)
		class := ""
		switch r.Intn(14) {
		case 0:
			// a column holding two dynamic types: the real compare panics (type assertion);
			// only the model tie is checked on these
			class = "type-mismatch"
			a.Key = setKey(a.Key, "d1", Val{T: "int", K: "int", V: "1"})
			b.Key = setKey(b.Key, "d1", Val{T: "str", V: "a"})
			keys[r.Intn(len(keys))] = Key{"d1", r.Bool()}
		case 1:
			// Go uint: compare's `case uint` asserts b.(uint64)
			class = "uint-dim"
			other := hk.Pick(r, []string{"uint", "uint", "u64"})
			a.Key = setKey(a.Key, "d1", Val{T: "int", K: "uint", V: "1"})
			b.Key = setKey(b.Key, "d1", Val{T: "int", K: other, V: "2"})
			if r.Bool() {
				a, b = b, a
			}
			keys[r.Intn(len(keys))] = Key{"d1", r.Bool()}
		case 2, 3:
			// rows identical on every column: Less must be false both ways
			class = "identical"
			b = a
		}
		if class != "" {
			e.hit("core:class:" + class)
			if class != "identical" {
				// drop a shadowing field so that d1 really is looked up in the key
				a.Fields, b.Fields = dropField(a.Fields, "d1"), dropField(b.Fields, "d1")
			}
		}
		if c, ok := specCmp(keys, a, b); ok {
			e.hit(fmt.Sprintf("core:less:spec-cmp=%d", c))
			if c == 0 {
				e.hit("core:less:tie-on-all-keys")
			}
		}
		return e.lessCase(keys, a, b, class, idx)
	}
	e.hit("core:kind:query")
	n := r.Range(0, 9)
	if r.Chance(1, 20) {
		n = r.Range(13, 40) // beyond sort.Sort's insertion-sort threshold (12)
		e.hit("core:rows:>12")
	}
	rows := make([]Row, n)
	for i := range rows {
		if i > 0 && r.Chance(1, 6) {
			rows[i] = rows[r.Intn(i)] // exact duplicate row
			e.hit("core:rows:duplicate")
		} else {
			rows[i] = genRow(r, s, e)
		}
	}
	e.hit(fmt.Sprintf("core:rows:n=%d", min(n, 13)))
	nk := r.Range(0, 4)
	if r.Chance(1, 8) {
		nk = 0
	}
	keys := genKeys(r, nk, e, "core")
	limit, offset := genLimOff(r, n, e, "core")
	return e.queryCase(keys, rows, limit, offset, "", idx)
}

func setKey(key []KV, name string, v Val) []KV {
	out := []KV{}
	done := false
	for _, kv := range key {
		if kv.Name == name {
			out = append(out, KV{name, v})
			done = true
		} else {
			if !done && kv.Name > name {
				out = append(out, KV{name, v})
				done = true
			}
			out = append(out, kv)
		}
	}
	if !done {
		out = append(out, KV{name, v})
	}
	return out
}

func dropField(fs []FV, name string) []FV {
	out := []FV{}
	for _, f := range fs {
		if f.Name != name {
			out = append(out, f)
		}
	}
	return out
}

// ---------------------------------------------------------------- small-scope enumeration

// columns of the enumeration: c1 int dimension whose lowest rank is "dimension missing",
// c2 string dimension, c3 float field, and _time.
var exhCols = []string{"c1", "c2", "c3", "_time"}

func exhRow(ranks map[string]int) Row {
	r := Row{TS: baseTS + int64(ranks["_time"])*1e9}
	if k := ranks["c1"]; k > 0 {
		r.Key = append(r.Key, KV{"c1", Val{T: "int", K: "int", V: []string{"", "5", "9"}[k]}})
	}
	r.Key = append(r.Key, KV{"c2", Val{T: "str", V: []string{"a", "b", "c"}[ranks["c2"]]}})
	r.Fields = []FV{{"c3", []string{"-3/2", "0", "2"}[ranks["c3"]]}}
	return r
}

// weakOrders(n): all assignments of dense ranks to n items (3 for n=2, 13 for n=3).
func weakOrders(n int) [][]int {
	var out [][]int
	cur := make([]int, n)
	var rec func(i int)
	rec = func(i int) {
		if i == n {
			used := map[int]bool{}
			mx := 0
			for _, v := range cur {
				used[v] = true
				if v > mx {
					mx = v
				}
			}
			if len(used) == mx+1 {
				out = append(out, append([]int(nil), cur...))
			}
			return
		}
		for v := 0; v < n; v++ {
			cur[i] = v
			rec(i + 1)
		}
	}
	rec(0)
	return out
}

func allKeyLists(maxLen int) [][]Key {
	opts := []Key{}
	for _, c := range exhCols {
		opts = append(opts, Key{c, false}, Key{c, true})
	}
	var out [][]Key
	var rec func(cur []Key)
	rec = func(cur []Key) {
		if len(cur) > 0 {
			out = append(out, append([]Key(nil), cur...))
		}
		if len(cur) == maxLen {
			return
		}
		for _, o := range opts {
			rec(append(cur, o))
		}
	}
	rec(nil)
	return out
}

var perms3 = [][]int{{0, 1, 2}, {0, 2, 1}, {1, 0, 2}, {1, 2, 0}, {2, 0, 1}, {2, 1, 0}}

// exhaustive enumerates every key list of length <= L over the 4 columns x 2 directions
// (repetitions allowed) x every tie pattern (weak order per column that the key list
// mentions) of 2 rows and of 3 rows (3 rows: every input order), plus every
// (limit, offset) in 0..6 x 0..6 on sources of 0..4 rows.  L = 3 in the thorough tier
// (the claim of DESIGN §6 C09), L = 2 in the quick tier (not flagged exhaustive).
func (e *run) exhaustive() error {
	L := 2
	if e.ctx.Tier == "thorough" {
		L = 3
	}
	lists := allKeyLists(L)
	wo2, wo3 := weakOrders(2), weakOrders(3)
	n2, n3, nlo := 0, 0, 0
	idx := uint64(1 << 48)
	for _, keys := range lists {
		used := []string{}
		seen := map[string]bool{}
		for _, k := range keys {
			if !seen[k.F] {
				seen[k.F] = true
				used = append(used, k.F)
			}
		}
		for _, nrows := range []int{2, 3} {
			wo := wo2
			if nrows == 3 {
				wo = wo3
			}
			// odometer over one weak order per used column
			sel := make([]int, len(used))
			for {
				rows := make([]Row, nrows)
				for i := 0; i < nrows; i++ {
					ranks := map[string]int{}
					for ci, c := range used {
						ranks[c] = wo[sel[ci]][i]
					}
					rows[i] = exhRow(ranks)
				}
				idx++
				if nrows == 2 {
					n2++
					e.hit("exh:2-row-pattern")
					if err := e.lessCase(keys, rows[0], rows[1], "exh", idx); err != nil {
						return err
					}
				} else {
					n3++
					e.hit("exh:3-row-pattern")
					if err := e.exhSort(keys, rows, idx); err != nil {
						return err
					}
				}
				// next
				k := 0
				for k < len(sel) {
					sel[k]++
					if sel[k] < len(wo) {
						break
					}
					sel[k] = 0
					k++
				}
				if k == len(sel) {
					break
				}
			}
		}
	}
	// limit/offset
	for n := 0; n <= 4; n++ {
		rows := make([]Row, n)
		for i := range rows {
			rows[i] = Row{TS: baseTS + int64(i), Fields: []FV{{"c3", strconv.Itoa(i)}}}
		}
		for limit := 0; limit <= 6; limit++ {
			for offset := 0; offset <= 6; offset++ {
				idx++
				nlo++
				e.hit("exh:limit-offset")
				if err := e.queryCase(nil, rows, limit, offset, "exh", idx); err != nil {
					return err
				}
			}
		}
	}
	e.ctx.Res.Note("exh: enumerated all %d key lists of length <= %d over columns %v x {asc,desc}; %d two-row and %d three-row tie patterns (3-row: all 6 input orders); %d (rows<=4, limit<=6, offset<=6) slices", len(lists), L, exhCols, n2, n3, nlo)
	if L == 3 && e.ctx.Mode == "exh" {
		e.ctx.Res.Exhaustive = true
	}
	return nil
}

// exhSort: the real Sort on every input order of the 3 rows (oracle), the model's sort once.
func (e *run) exhSort(keys []Key, rows []Row, idx uint64) error {
	cj := queryCaseJSON(keys, rows, 0, 0, "exh")
	e.ctx.Res.Count(cj, true)
	var first []Row
	for _, p := range perms3 {
		in := []Row{rows[p[0]], rows[p[1]], rows[p[2]]}
		ordIdx, pn, err := runCore(in, keys, 0, 0)
		pcj := cj
		if p[0] != 0 || p[1] != 1 {
			pcj = queryCaseJSON(keys, in, 0, 0, "exh")
		}
		if pn != nil || err != nil {
			e.ctx.Res.Disagree(hk.Disagreement{Kind: "property", Case: pcj, Detail: fmt.Sprintf("Sort failed: panic=%v err=%v", pn, err), PropertyFails: true, Index: idx})
			return nil
		}
		ordered := pick(in, ordIdx)
		if first == nil {
			first = ordered
		}
		e.checkResult(pcj, keys, in, ordered, ordered, 0, 0, true, idx)
	}
	if e.ctx.Model == nil {
		return nil
	}
	ms, err := e.modelRows(map[string]interface{}{"engine": "sort", "op": "sort", "keys": keys, "rows": rowsJSON(rows)})
	if err != nil {
		return err
	}
	if !sameStrings(canonOrdered(keys, ms), canonOrdered(keys, first)) {
		e.ctx.Res.Disagree(hk.Disagreement{Kind: "model-vs-impl", Case: cj, Impl: rowsJSON(first), Model: rowsJSON(ms), Detail: "ordered result (modulo order inside ties)", Index: idx})
	}
	return nil
}
