// Package sortlim is the correspondence engine for C09 (ORDER BY / LIMIT / OFFSET):
// core.Sort / core.Offset / core.Limit of /repo/core are driven through a mock
// core.FlatRowSource and end-to-end through an embedded zenodb.DB, and compared with the
// Lean model (driver engine "sort": orderedRows.Less pointwise on two-row inputs, the
// model's sort modulo the order inside ties, the limit/offset folds exactly).  The
// property oracle is evaluated on the implementation alone: the ordered result is a
// permutation of the unordered one, non-decreasing under an independent lexicographic
// comparator (specCmp), and LIMIT/OFFSET return the slice of the ordered result.
//
// Modes (-mode): "core" (mock source, ctx.N cases), "db" (embedded DB, ctx.N tables with
// several queries each), "exh" (small-scope enumeration; complete only in the thorough
// tier), "" = all three (db gets ctx.N/25 tables).
package sortlim

import (
	"context"
	"encoding/json"
	"fmt"
	"os"
	"path/filepath"
	"sort"
	"strings"
	"time"

	"github.com/getlantern/zenodb/core"

	"zvh/hk"
)

type Engine struct{}

const baseTS = int64(1583064000000000000) // 2020-03-01T12:00:00Z

// ---------------------------------------------------------------- mock source

type mockSource struct {
	fields core.Fields
	rows   []*core.FlatRow
	calls  int // number of onRow calls made
}

func (m *mockSource) GetGroupBy() []core.GroupBy   { return nil }
func (m *mockSource) GetResolution() time.Duration { return time.Second }
func (m *mockSource) GetAsOf() time.Time           { return time.Time{} }
func (m *mockSource) GetUntil() time.Time          { return time.Time{} }
func (m *mockSource) String() string               { return "mock" }
func (m *mockSource) Iterate(ctx context.Context, onFields core.OnFields, onRow core.OnFlatRow) (interface{}, error) {
	if err := onFields(m.fields); err != nil {
		return nil, err
	}
	for _, r := range m.rows {
		m.calls++
		more, err := onRow(r)
		if err != nil {
			return nil, err
		}
		if !more {
			break
		}
	}
	return nil, nil
}

// runCore drives the real transforms composed as planner.addOrderLimitOffset composes them
// and returns the indices (into rows) of the rows delivered.
func runCore(rows []Row, keys []Key, limit, offset int) (out []int, panicked interface{}, err error) {
	flats := make([]*core.FlatRow, len(rows))
	idx := make(map[*core.FlatRow]int, len(rows))
	for i, r := range rows {
		flats[i] = r.flat()
		idx[flats[i]] = i
	}
	src := &mockSource{rows: flats}
	var flat core.FlatRowSource = src
	if len(keys) > 0 {
		flat = core.Sort(flat, orderBys(keys)...)
	}
	if offset > 0 {
		flat = core.Offset(flat, offset)
	}
	if limit > 0 {
		flat = core.Limit(flat, limit)
	}
	panicked = hk.Recover(func() {
		_, err = flat.Iterate(context.Background(), core.FieldsIgnored, func(r *core.FlatRow) (bool, error) {
			out = append(out, idx[r])
			return true, nil
		})
	})
	return
}

// implLess exposes orderedRows.Less(a, b): sort.Sort on the two-element input [b, a] makes
// exactly one call Less(1, 0) = Less(a, b) and swaps iff it is true.
func implLess(keys []Key, a, b Row) (less bool, panicked bool) {
	out, p, _ := runCore([]Row{b, a}, keys, 0, 0)
	if p != nil {
		return false, true
	}
	return len(out) == 2 && out[0] == 1, false
}

func pick(rows []Row, idx []int) []Row {
	out := make([]Row, len(idx))
	for i, k := range idx {
		out[i] = rows[k]
	}
	return out
}

// ---------------------------------------------------------------- model calls

func (e *run) modelLess(keys []Key, a, b Row) (less, panicked, preFix bool, req map[string]interface{}, err error) {
	req = map[string]interface{}{"engine": "sort", "op": "less", "keys": keys, "a": a.JSON(), "b": b.JSON()}
	if e.ctx.Model == nil {
		return false, false, false, req, errNoModel
	}
	out, err := e.ctx.Model.Call(req)
	if err != nil {
		return false, false, false, req, err
	}
	var m struct {
		Less   bool `json:"less"`
		Panic  bool `json:"panic"`
		PreFix bool `json:"pre_fix"`
	}
	if err := json.Unmarshal(out, &m); err != nil {
		return false, false, false, req, err
	}
	return m.Less, m.Panic, m.PreFix, req, nil
}

func (e *run) modelRows(req map[string]interface{}) ([]Row, error) {
	if e.ctx.Model == nil {
		return nil, errNoModel
	}
	out, err := e.ctx.Model.Call(req)
	if err != nil {
		return nil, err
	}
	var m struct {
		Rows json.RawMessage `json:"rows"`
	}
	if err := json.Unmarshal(out, &m); err != nil {
		return nil, err
	}
	return rowsFromJSON(m.Rows)
}

var errNoModel = fmt.Errorf("no model")

// ---------------------------------------------------------------- run

type run struct {
	ctx *hk.RunCtx
	db  *dbState
}

func (e *run) hit(k string) { e.ctx.Res.Hit(k) }

func (Engine) Run(ctx *hk.RunCtx) error {
	e := &run{ctx: ctx}
	defer e.closeDB()
	ctx.Res.Rule = "cases: less (two rows + key list, Less(a,b) exposed through a 2-row sort), query (row set + key list + limit + offset through the real Sort/Offset/Limit), db (inserted points + SQL ORDER BY/LIMIT through an embedded DB); distinct by canonical case JSON; non-trivial = less: the rows differ on at least one ordered column; query/db: at least 2 rows and (a key list or a limit or an offset)"
	if ctx.Replay != "" {
		return e.replayFile(ctx.Replay, 0)
	}
	if ctx.Corpus != "" {
		files, _ := filepath.Glob(filepath.Join(ctx.Corpus, "*.json"))
		sort.Strings(files)
		for i, f := range files {
			if strings.Contains(filepath.Base(f), "dblarge") && ctx.Mode != "" && ctx.Mode != "db" {
				continue // large end-to-end cases: once per check run (db mode), not once per mode
			}
			e.hit("corpus")
			if err := e.replayFile(f, uint64(1<<40)+uint64(i)); err != nil {
				return fmt.Errorf("corpus %s: %v", f, err)
			}
		}
	}
	mode := ctx.Mode
	if (mode == "" && ctx.From == 0) || mode == "exh" {
		if err := e.exhaustive(); err != nil {
			return err
		}
	}
	if mode == "" || mode == "core" {
		for i := ctx.From; i < ctx.From+ctx.N; i++ {
			r := hk.Derive(ctx.Seed, uint64(i))
			if isLargeCore(i) {
				if err := e.largeCoreCase(r, uint64(i)); err != nil {
					return err
				}
				continue
			}
			if err := e.coreCase(r, uint64(i)); err != nil {
				return err
			}
		}
	}
	if mode == "" || mode == "db" {
		n, from := ctx.N, ctx.From
		if mode == "" {
			n, from = ctx.N/25, ctx.From/25
		}
		for i := from; i < from+n; i++ {
			idx := uint64(1<<32) + uint64(i)
			r := hk.Derive(ctx.Seed, idx)
			var c DBCase
			if isLargeDB(i) {
				c = genLargeDBCase(r, e)
			} else {
				c = genDBCase(r)
				e.dbHits(c)
			}
			if err := e.dbCase(c, idx); err != nil {
				return err
			}
		}
	}
	return nil
}

// replayFile runs one stored case: either a replay file written by check.py
// ({"case": ...}) or a corpus file holding the case itself.
func (e *run) replayFile(path string, idx uint64) error {
	b, err := os.ReadFile(path)
	if err != nil {
		return err
	}
	var top map[string]json.RawMessage
	if err := json.Unmarshal(b, &top); err != nil {
		return err
	}
	raw := json.RawMessage(b)
	if c, ok := top["case"]; ok {
		raw = c
	}
	var c Case
	if err := json.Unmarshal(raw, &c); err != nil {
		return err
	}
	return e.runCase(c, idx)
}

// Case is the self-contained, replayable form of every case of this engine.
type Case struct {
	Kind   string            `json:"kind"` // less | query | db
	Keys   []Key             `json:"keys"`
	A      json.RawMessage   `json:"a,omitempty"`
	B      json.RawMessage   `json:"b,omitempty"`
	Rows   json.RawMessage   `json:"rows,omitempty"`
	Limit  int               `json:"limit"`
	Offset int               `json:"offset"`
	Class  string            `json:"class,omitempty"`
	DB     *DBCase           `json:"db,omitempty"`
	Large  *LargeSpec        `json:"large,omitempty"` // kind "dblarge": compact form of a large db case
	Extra  map[string]string `json:"extra,omitempty"`
}

func (e *run) runCase(c Case, idx uint64) error {
	switch c.Kind {
	case "less":
		a, err := rowFromJSON(c.A)
		if err != nil {
			return err
		}
		b, err := rowFromJSON(c.B)
		if err != nil {
			return err
		}
		return e.lessCase(c.Keys, a, b, c.Class, idx)
	case "query":
		rows, err := rowsFromJSON(c.Rows)
		if err != nil {
			return err
		}
		return e.queryCase(c.Keys, rows, c.Limit, c.Offset, c.Class, idx)
	case "dblarge":
		if c.Large == nil {
			return fmt.Errorf("dblarge case without large")
		}
		e.hit("db:large")
		return e.dbCase(c.Large.expand(), idx)
	case "db":
		if c.DB == nil {
			return fmt.Errorf("db case without db")
		}
		return e.dbCase(*c.DB, idx)
	}
	return fmt.Errorf("unknown case kind %q", c.Kind)
}

func lessCaseJSON(keys []Key, a, b Row, class string) map[string]interface{} {
	return map[string]interface{}{"kind": "less", "keys": keys, "a": a.JSON(), "b": b.JSON(), "class": class}
}

func queryCaseJSON(keys []Key, rows []Row, limit, offset int, class string) map[string]interface{} {
	return map[string]interface{}{"kind": "query", "keys": keys, "rows": rowsJSON(rows), "limit": limit, "offset": offset, "class": class}
}

// ---------------------------------------------------------------- less case

func differOnKeys(keys []Key, a, b Row) bool {
	for _, k := range keys {
		if proj([]Key{k}, a) != proj([]Key{k}, b) {
			return true
		}
	}
	return false
}

func (e *run) lessCase(keys []Key, a, b Row, class string, idx uint64) error {
	cj := lessCaseJSON(keys, a, b, class)
	e.ctx.Res.Count(cj, differOnKeys(keys, a, b))
	comparable := comparableRows(keys, []Row{a, b})
	il, ip := implLess(keys, a, b)
	impl := map[string]interface{}{"less": il, "panic": ip}

	// property oracle on the implementation alone
	if comparable {
		want := specLess(keys, a, b)
		if ip {
			e.ctx.Res.Disagree(hk.Disagreement{Kind: "property", Case: cj, Impl: impl, Model: map[string]interface{}{"less": want},
				Detail: "Less panicked on rows whose ordered columns hold one type each", PropertyFails: true, Index: idx})
		} else if il != want {
			e.ctx.Res.Disagree(hk.Disagreement{Kind: "property", Case: cj, Impl: impl, Model: map[string]interface{}{"less": want, "spec": "lexicographic comparison over the full key list"},
				Detail: "Less(a,b) differs from the lexicographic order over the key list", PropertyFails: true, Index: idx})
		}
	} else {
		e.hit("less:not-comparable(model tie only)")
	}

	ml, mp, pre, req, err := e.modelLess(keys, a, b)
	if err == errNoModel {
		return nil
	}
	if err != nil {
		return err
	}
	_ = req
	model := map[string]interface{}{"less": ml, "panic": mp}
	if ml != il || mp != ip {
		d := "Less"
		if !ip && pre == il && pre != ml {
			d = "Less (implementation behaves like the pre-fix model lessBuggy: defect D2, _time branch falls through on ta > tb)"
		}
		e.ctx.Res.Disagree(hk.Disagreement{Kind: "model-vs-impl", Case: cj, Impl: impl, Model: model, Detail: d, Index: idx})
	}
	if mp && ip {
		e.hit("less:panic-agreed")
	}
	return nil
}

// ---------------------------------------------------------------- query case (mock source)

func (e *run) queryCase(keys []Key, rows []Row, limit, offset int, class string, idx uint64) error {
	if keys == nil {
		keys = []Key{}
	}
	cj := queryCaseJSON(keys, rows, limit, offset, class)
	e.ctx.Res.Count(cj, len(rows) >= 2 && (len(keys) > 0 || limit > 0 || offset > 0))
	if !comparableRows(keys, rows) {
		e.hit("query:skipped-not-comparable")
		return nil
	}
	// the ordered result (Sort alone) and the full pipeline
	ordIdx, p1, err1 := runCore(rows, keys, 0, 0)
	outIdx, p2, err2 := runCore(rows, keys, limit, offset)
	if p1 != nil || p2 != nil || err1 != nil || err2 != nil {
		e.ctx.Res.Disagree(hk.Disagreement{Kind: "property", Case: cj, Detail: fmt.Sprintf("Sort/Offset/Limit failed: panic=%v/%v err=%v/%v", p1, p2, err1, err2), PropertyFails: true, Index: idx})
		return nil
	}
	ordered, out := pick(rows, ordIdx), pick(rows, outIdx)
	e.checkResult(cj, keys, rows, ordered, out, limit, offset, true, idx)

	// model
	if e.ctx.Model == nil {
		return nil
	}
	big := len(rows) > modelSortMax
	if big {
		e.hit("large:model-sort-skipped(quadratic)")
	}
	if len(keys) > 0 && !big {
		ms, err := e.modelRows(map[string]interface{}{"engine": "sort", "op": "sort", "keys": keys, "rows": rowsJSON(rows)})
		if err != nil {
			return err
		}
		if !sameStrings(canonOrdered(keys, ms), canonOrdered(keys, ordered)) {
			e.ctx.Res.Disagree(hk.Disagreement{Kind: "model-vs-impl", Case: cj, Impl: rowsJSON(ordered), Model: rowsJSON(ms), Detail: "ordered result (modulo order inside ties)", Index: idx})
		}
	}
	// limit/offset folds on the implementation's own ordered result: exact
	msl, err := e.modelRows(map[string]interface{}{"engine": "sort", "op": "slice", "rows": rowsJSON(ordered), "limit": limit, "offset": offset})
	if err != nil {
		return err
	}
	if !(sameRowSeq(msl, out) || (len(keys) > 0 && sameStrings(projs(keys, msl), projs(keys, out)))) {
		e.ctx.Res.Disagree(hk.Disagreement{Kind: "model-vs-impl", Case: cj, Impl: rowsJSON(out), Model: rowsJSON(msl), Detail: "limit/offset of the ordered result", Index: idx})
	}
	if big && len(keys) > 0 {
		return nil
	}
	// the composition (addOrderLimitOffset with the model's own sort): same key projections
	mq, err := e.modelRows(map[string]interface{}{"engine": "sort", "op": "query", "keys": keys, "rows": rowsJSON(rows), "limit": limit, "offset": offset})
	if err != nil {
		return err
	}
	same := sameStrings(projs(keys, mq), projs(keys, out))
	if len(keys) == 0 {
		same = sameRowSeq(mq, out)
	}
	if !same {
		e.ctx.Res.Disagree(hk.Disagreement{Kind: "model-vs-impl", Case: cj, Impl: rowsJSON(out), Model: rowsJSON(mq), Detail: "addOrderLimitOffset composition", Index: idx})
	}
	return nil
}

func sameRowSeq(a, b []Row) bool {
	if len(a) != len(b) {
		return false
	}
	for i := range a {
		if a[i].canon() != b[i].canon() {
			return false
		}
	}
	return true
}

// checkResult is the property oracle: unordered = the rows without ORDER BY/LIMIT,
// ordered = result of ORDER BY alone, out = result of ORDER BY + LIMIT/OFFSET.
// exactUnordered: without ORDER BY the source order is deterministic (mock source), so the
// slice must be exact; otherwise (DB) any n rows of the result are acceptable.
func (e *run) checkResult(cj interface{}, keys []Key, unordered, ordered, out []Row, limit, offset int, exactUnordered bool, idx uint64) {
	fail := func(detail string, impl, want interface{}) {
		e.ctx.Res.Disagree(hk.Disagreement{Kind: "property", Case: cj, Impl: impl, Model: want, Detail: detail, PropertyFails: true, Index: idx})
	}
	if !sameMultiset(ordered, unordered) {
		fail("ORDER BY changed the multiset of rows", rowsJSON(ordered), rowsJSON(unordered))
		return
	}
	ties := false
	for i := 0; i < len(ordered); i++ {
		// small results: all pairs; large ones: neighbours only (the specification order is
		// transitive: Props/C09 lexLt_trans / lexLt_negTrans)
		last := len(ordered)
		if len(ordered) > pairwiseMax {
			last = min(len(ordered), i+2)
		}
		for j := i + 1; j < last; j++ {
			c, _ := specCmp(keys, ordered[j], ordered[i])
			if c < 0 {
				fail("ORDER BY result is not non-decreasing under the key list", rowsJSON(ordered), nil)
				return
			}
			if c == 0 {
				ties = true
			}
		}
	}
	if ties && len(keys) > 0 {
		e.hit("result:has-ties")
	}
	want := sliceSpec(ordered, limit, offset)
	if len(out) != len(want) {
		fail(fmt.Sprintf("LIMIT %d OFFSET %d returned %d rows, the slice of the ordered result has %d", limit, offset, len(out), len(want)), rowsJSON(out), rowsJSON(want))
		return
	}
	if limit > 0 && len(out) > limit {
		fail("more rows than LIMIT", rowsJSON(out), rowsJSON(want))
		return
	}
	if !subMultiset(out, unordered) {
		fail("LIMIT/OFFSET returned a row that is not in the result", rowsJSON(out), rowsJSON(unordered))
		return
	}
	if len(keys) > 0 {
		if !sameStrings(projs(keys, out), projs(keys, want)) {
			fail("LIMIT/OFFSET did not return rows m..m+n-1 of the ordered result", rowsJSON(out), rowsJSON(want))
		}
	} else if exactUnordered {
		if !sameRowSeq(out, want) {
			fail("LIMIT/OFFSET did not return rows m..m+n-1 of the (unordered) source", rowsJSON(out), rowsJSON(want))
		}
	}
}
