package sortlim

import (
	"strings"
	"encoding/json"
	"fmt"
	"math/big"
	"sort"
	"strconv"
	"time"

	"github.com/getlantern/bytemap"
	"github.com/getlantern/zenodb/core"
	"github.com/getlantern/zenodb/expr"

	"zvh/hk"
)

// Val is the JSON form of a dynamic Go value as the model's DimVal sees it.
type Val struct {
	T string      `json:"t"`           // nil bool int float str time other
	K string      `json:"k,omitempty"` // int kind / float width
	V interface{} `json:"v,omitempty"` // bool | decimal string | rat string | string | ns string | number
}

var nilVal = Val{T: "nil"}

var intKinds = []string{"byte", "u16", "u32", "u64", "uint", "i8", "i16", "i32", "i64", "int"}

func (v Val) str() string { s, _ := v.V.(string); return s }

// goVal builds the real Go value.
func (v Val) goVal() interface{} {
	switch v.T {
	case "nil":
		return nil
	case "bool":
		b, _ := v.V.(bool)
		return b
	case "int":
		i, _ := strconv.ParseInt(v.str(), 10, 64)
		switch v.K {
		case "byte":
			return byte(i)
		case "u16":
			return uint16(i)
		case "u32":
			return uint32(i)
		case "u64":
			return uint64(i)
		case "uint":
			return uint(i)
		case "i8":
			return int8(i)
		case "i16":
			return int16(i)
		case "i32":
			return int32(i)
		case "i64":
			return int64(i)
		default:
			return int(i)
		}
	case "float":
		r, _ := hk.ParseRat(v.str())
		f, _ := r.Float64()
		if v.K == "f32" {
			return float32(f)
		}
		return f
	case "str":
		return v.str()
	case "time":
		ns, _ := strconv.ParseInt(v.str(), 10, 64)
		return time.Unix(0, ns)
	case "other":
		n := 0
		switch x := v.V.(type) {
		case float64:
			n = int(x)
		case int:
			n = x
		}
		return []byte{byte(n)}
	}
	return nil
}

// valOf renders a dynamic value coming out of the real code.
func valOf(x interface{}) Val {
	iv := func(k string, i int64) Val { return Val{T: "int", K: k, V: strconv.FormatInt(i, 10)} }
	switch t := x.(type) {
	case nil:
		return nilVal
	case bool:
		return Val{T: "bool", V: t}
	case byte:
		return iv("byte", int64(t))
	case uint16:
		return iv("u16", int64(t))
	case uint32:
		return iv("u32", int64(t))
	case uint64:
		return iv("u64", int64(t))
	case uint:
		return iv("uint", int64(t))
	case int8:
		return iv("i8", int64(t))
	case int16:
		return iv("i16", int64(t))
	case int32:
		return iv("i32", int64(t))
	case int64:
		return iv("i64", t)
	case int:
		return iv("int", int64(t))
	case float32:
		return Val{T: "float", K: "f32", V: hk.RatOfFloat(float64(t))}
	case float64:
		return Val{T: "float", K: "f64", V: hk.RatOfFloat(t)}
	case string:
		return Val{T: "str", V: t}
	case time.Time:
		return Val{T: "time", V: strconv.FormatInt(t.UnixNano(), 10)}
	case []byte:
		n := 0
		if len(t) > 0 {
			n = int(t[0])
		}
		return Val{T: "other", V: n}
	}
	return Val{T: "other", V: 0}
}

type KV struct {
	Name string
	Val  Val
}

type FV struct {
	Name string
	Rat  string
}

// Row is a flat row in the model's JSON shape.
type Row struct {
	TS     int64
	Key    []KV // sorted by name, names unique
	Fields []FV // in field order
}

func (r Row) JSON() map[string]interface{} {
	key := make([]interface{}, 0, len(r.Key))
	for _, kv := range r.Key {
		key = append(key, []interface{}{kv.Name, kv.Val})
	}
	fs := make([]interface{}, 0, len(r.Fields))
	for _, f := range r.Fields {
		fs = append(fs, []interface{}{f.Name, f.Rat})
	}
	return map[string]interface{}{"ts": strconv.FormatInt(r.TS, 10), "key": key, "fields": fs}
}

func (r Row) canon() string {
	b, _ := json.Marshal(r.JSON())
	return string(b)
}

func rowsJSON(rs []Row) []interface{} {
	out := make([]interface{}, len(rs))
	for i, r := range rs {
		out[i] = r.JSON()
	}
	return out
}

// rowFromJSON parses the model's (or a replay file's) row.
func rowFromJSON(raw json.RawMessage) (Row, error) {
	var j struct {
		TS     string              `json:"ts"`
		Key    [][]json.RawMessage `json:"key"`
		Fields [][]string          `json:"fields"`
	}
	if err := json.Unmarshal(raw, &j); err != nil {
		return Row{}, err
	}
	ts, err := strconv.ParseInt(j.TS, 10, 64)
	if err != nil {
		return Row{}, err
	}
	r := Row{TS: ts}
	for _, p := range j.Key {
		if len(p) != 2 {
			return Row{}, fmt.Errorf("bad key pair")
		}
		var name string
		var v Val
		if err := json.Unmarshal(p[0], &name); err != nil {
			return Row{}, err
		}
		if err := json.Unmarshal(p[1], &v); err != nil {
			return Row{}, err
		}
		r.Key = append(r.Key, KV{name, v})
	}
	for _, p := range j.Fields {
		if len(p) != 2 {
			return Row{}, fmt.Errorf("bad field pair")
		}
		r.Fields = append(r.Fields, FV{p[0], p[1]})
	}
	return r, nil
}

func rowsFromJSON(raw json.RawMessage) ([]Row, error) {
	var rs []json.RawMessage
	if err := json.Unmarshal(raw, &rs); err != nil {
		return nil, err
	}
	out := make([]Row, 0, len(rs))
	for _, x := range rs {
		r, err := rowFromJSON(x)
		if err != nil {
			return nil, err
		}
		out = append(out, r)
	}
	return out, nil
}

// get is the lookup rule of the property: a selected field of that name, else
// the dimension of that name, else nil.
func (r Row) get(name string) Val {
	for _, f := range r.Fields {
		if f.Name == name {
			return Val{T: "float", K: "f64", V: f.Rat}
		}
	}
	for _, kv := range r.Key {
		if kv.Name == name {
			return kv.Val
		}
	}
	return nilVal
}

// flat builds the real *core.FlatRow.
func (r Row) flat() *core.FlatRow {
	m := make(map[string]interface{}, len(r.Key))
	for _, kv := range r.Key {
		m[kv.Name] = kv.Val.goVal()
	}
	fr := &core.FlatRow{TS: r.TS, Key: bytemap.New(m), Values: make([]float64, len(r.Fields))}
	fields := make(core.Fields, len(r.Fields))
	for i, f := range r.Fields {
		rat, _ := hk.ParseRat(f.Rat)
		fr.Values[i], _ = rat.Float64()
		fields[i] = core.NewField(f.Name, expr.FIELD(f.Name))
	}
	fr.SetFields(fields)
	return fr
}

// rowOfFlat renders a row produced by the real code (field names come from onFields).
func rowOfFlat(fr *core.FlatRow, names []string) Row {
	r := Row{TS: fr.TS}
	m := fr.Key.AsMap()
	ks := make([]string, 0, len(m))
	for k := range m {
		ks = append(ks, k)
	}
	sort.Strings(ks)
	for _, k := range ks {
		r.Key = append(r.Key, KV{k, valOf(m[k])})
	}
	for i, n := range names {
		if i < len(fr.Values) {
			r.Fields = append(r.Fields, FV{n, hk.RatOfFloat(fr.Values[i])})
		}
	}
	return r
}

// Key is one ORDER BY element.
type Key struct {
	F string `json:"f"`
	D bool   `json:"d"`
}

func orderBys(keys []Key) []core.OrderBy {
	out := make([]core.OrderBy, len(keys))
	for i, k := range keys {
		out[i] = core.NewOrderBy(k.F, k.D)
	}
	return out
}

// ---------------------------------------------------------------- independent specification comparator

// goTypeName is reflect.TypeOf(v).String() for the value kinds the engine generates.
func goTypeName(v Val) string {
	switch v.T {
	case "bool":
		return "bool"
	case "int":
		switch v.K {
		case "byte":
			return "uint8"
		case "u16":
			return "uint16"
		case "u32":
			return "uint32"
		case "u64":
			return "uint64"
		case "uint":
			return "uint"
		case "i8":
			return "int8"
		case "i16":
			return "int16"
		case "i32":
			return "int32"
		case "i64":
			return "int64"
		}
		return "int"
	case "float":
		if v.K == "f32" {
			return "float32"
		}
		return "float64"
	case "str":
		return "string"
	case "time":
		return "time.Time"
	}
	return "[]uint8"
}

// specCmpVal: nil sorts first; values of different types by the name of their type; values of
// one type by their natural order ("other" = []byte values are unordered among themselves).
func specCmpVal(a, b Val) (c int, ok bool) {
	if a.T == "nil" || b.T == "nil" {
		switch {
		case a.T == "nil" && b.T == "nil":
			return 0, true
		case a.T == "nil":
			return -1, true
		default:
			return 1, true
		}
	}
	if a.T != b.T || a.K != b.K {
		// values of different dynamic types: ordered by the name of the Go type (the documented
		// behaviour of core.compare since /repo 8a9a760; before, the comparison panicked)
		return strings.Compare(goTypeName(a), goTypeName(b)), true
	}
	switch a.T {
	case "bool":
		x, _ := a.V.(bool)
		y, _ := b.V.(bool)
		switch {
		case x == y:
			return 0, true
		case !x:
			return -1, true
		default:
			return 1, true
		}
	case "int", "time":
		x, _ := new(big.Int).SetString(a.str(), 10)
		y, _ := new(big.Int).SetString(b.str(), 10)
		return x.Cmp(y), true
	case "float":
		x, _ := hk.ParseRat(a.str())
		y, _ := hk.ParseRat(b.str())
		return x.Cmp(y), true
	case "str":
		x, y := a.str(), b.str()
		switch {
		case x < y:
			return -1, true
		case x > y:
			return 1, true
		}
		return 0, true
	}
	return 0, true // "other": unordered, all tie
}

// specCmp is the lexicographic three-way comparison over the whole key list
// (sign flipped for DESC); comparable=false if some inspected column mixes types.
func specCmp(keys []Key, a, b Row) (c int, comparable bool) {
	for _, k := range keys {
		var d int
		if k.F == "_time" {
			switch {
			case a.TS < b.TS:
				d = -1
			case a.TS > b.TS:
				d = 1
			}
		} else {
			var ok bool
			d, ok = specCmpVal(a.get(k.F), b.get(k.F))
			if !ok {
				return 0, false
			}
		}
		if k.D {
			d = -d
		}
		if d != 0 {
			return d, true
		}
	}
	return 0, true
}

func specLess(keys []Key, a, b Row) bool {
	c, _ := specCmp(keys, a, b)
	return c < 0
}

// comparableRows: since /repo 8a9a760 every list of rows is comparable (the model's
// `comparable_always`); kept as a function so that the oracle's call sites read as before.
func comparableRows(keys []Key, rows []Row) bool { return true }

// projection of a row on the key list (what the order can see)
func proj(keys []Key, r Row) string {
	p := make([]interface{}, len(keys))
	for i, k := range keys {
		if k.F == "_time" {
			p[i] = r.TS
		} else {
			v := r.get(k.F)
			if v.T == "other" {
				v = Val{T: "other"} // unordered type: all values tie, the order cannot tell them apart
			}
			p[i] = v
		}
	}
	b, _ := json.Marshal(p)
	return string(b)
}

// canonOrdered renders an ordered result so that the order inside runs of rows that tie on
// every key does not matter (sort.Sort is not stable).
func canonOrdered(keys []Key, rows []Row) []string {
	out := make([]string, len(rows))
	for i, r := range rows {
		out[i] = r.canon()
	}
	i := 0
	for i < len(rows) {
		j := i + 1
		for j < len(rows) {
			if c, _ := specCmp(keys, rows[i], rows[j]); c != 0 {
				break
			}
			j++
		}
		sort.Strings(out[i:j])
		i = j
	}
	return out
}

func projs(keys []Key, rows []Row) []string {
	out := make([]string, len(rows))
	for i, r := range rows {
		out[i] = proj(keys, r)
	}
	return out
}

func sameStrings(a, b []string) bool {
	if len(a) != len(b) {
		return false
	}
	for i := range a {
		if a[i] != b[i] {
			return false
		}
	}
	return true
}

func multiset(rows []Row) map[string]int {
	m := map[string]int{}
	for _, r := range rows {
		m[r.canon()]++
	}
	return m
}

func sameMultiset(a, b []Row) bool {
	if len(a) != len(b) {
		return false
	}
	ma, mb := multiset(a), multiset(b)
	for k, v := range ma {
		if mb[k] != v {
			return false
		}
	}
	return true
}

func subMultiset(a, b []Row) bool {
	ma, mb := multiset(a), multiset(b)
	for k, v := range ma {
		if mb[k] < v {
			return false
		}
	}
	return true
}

// sliceSpec is LIMIT n OFFSET m on an ordered list with the planner's convention 0 = absent.
func sliceSpec(rows []Row, n, m int) []Row {
	if m > len(rows) {
		m = len(rows)
	}
	rest := rows[m:]
	if n > 0 && n < len(rest) {
		rest = rest[:n]
	}
	return rest
}
