package sortlim

import (
	"fmt"
	"strconv"

	"zvh/hk"
)

// ---------------------------------------------------------------- size-dependent behaviour
//
// Large results (600–3000 rows) with LIMIT/OFFSET drawn around the boundaries where a
// buffering / compacting / chunking sorter, limiter or skipper would change behaviour
// (0, 1, small, 511/512/513, multiples of 512, rows−1/rows/rows+1).  A fixed share of the
// core cases (every largeCoreEvery-th index) and of the db cases (every largeDBEvery-th) is
// of this kind, so the quick tier always contains a handful.  The oracle is the usual one
// (checkResult: permutation, non-decreasing, slice m..m+n−1 of the ordered result — exact
// when the key list ends in the unique column `id`, by key projection under ties); for
// results above modelSortMax rows the model's quadratic insertion sort is not called (the
// model's limit/offset folds still are).

const (
	largeCoreEvery = 1500
	largeCoreAt    = 7
	largeDBEvery   = 40
	largeDBAt      = 3
	modelSortMax   = 200
	pairwiseMax    = 64
)

func isLargeCore(i int) bool { return i%largeCoreEvery == largeCoreAt }
func isLargeDB(i int) bool   { return i%largeDBEvery == largeDBAt }

var largeKeyLists = [][]Key{
	// total orders (the unique column last): the slice is determined row by row
	{{"id", false}},
	{{"g", false}, {"id", true}},
	{{"_time", false}, {"h", false}, {"id", false}},
	{{"v", true}, {"_time", false}, {"id", false}},
	{{"h", true}, {"g", false}, {"id", false}},
	// many ties: the slice is determined up to the order inside ties
	{{"g", false}},
	{{"g", true}, {"h", false}},
	{{"_time", true}, {"v", false}},
	{{"h", false}, {"g", true}},
}

func largeSize(r *hk.Rng, tier string) int {
	switch r.Intn(4) {
	case 0:
		return r.Range(600, 700)
	case 1:
		return 512 + 512 + r.Range(-2, 2) // around two buffers
	case 2:
		return r.Range(1100, 1600)
	}
	if tier == "thorough" {
		return r.Range(1600, 3000)
	}
	return r.Range(700, 1100)
}

// boundaryLimOff draws (limit n, offset m) for a result of R rows.
func boundaryLimOff(r *hk.Rng, R int, e *run, tag string) (n, m int) {
	marks := []int{0, 1, 2, 10, 100, 511, 512, 513, 1023, 1024, 1025, R - 513, R - 512, R - 511, R - 1, R, R + 1, R + 600}
	pickMark := func() int {
		for {
			v := hk.Pick(r, marks)
			if v >= 0 {
				return v
			}
		}
	}
	shape := r.Intn(5)
	switch shape {
	case 0:
		n, m = pickMark(), pickMark()
	case 1: // small page deep inside the result
		n, m = r.Range(1, 20), hk.Pick(r, []int{1, 10, 511, 512, 513, 1024, R / 2, R - 20, R - 1})
	case 2: // m + n around a multiple of 512
		n = hk.Pick(r, []int{1, 10, 100, 511, 512, 513})
		m = r.Range(1, 3)*512 - n + r.Range(-1, 1)
	case 3: // page n at offset m with at least 512 rows behind it
		m = r.Range(1, max(1, R/2))
		n = r.Range(1, max(1, R-m-512))
	default: // only one of the two
		if r.Bool() {
			n = pickMark()
		} else {
			m = pickMark()
		}
	}
	if m < 0 {
		m = 0
	}
	e.hit(fmt.Sprintf("%s:large:limoff-shape=%d", tag, shape))
	if n > 0 && m > 0 {
		e.hit(tag + ":large:limit+offset")
		if R >= n+512 {
			e.hit(tag + ":large:rows>=limit+512,offset>0")
		}
	}
	if m >= R {
		e.hit(tag + ":large:offset>=rows")
	}
	return
}

func largeVals(r *hk.Rng, id int) (ts int64, g, h int, v string) {
	return baseTS + int64(r.Intn(3))*1e9, r.Intn(8), r.Intn(41), hk.Pick(r, fieldPool)
}

// largeCoreCase: R flat rows through the real Sort/Offset/Limit on the mock source.
func (e *run) largeCoreCase(r *hk.Rng, idx uint64) error {
	R := largeSize(r, e.ctx.Tier)
	rows := make([]Row, R)
	for i := range rows {
		ts, g, h, v := largeVals(r, i)
		rows[i] = Row{TS: ts, Key: []KV{
			{"g", Val{T: "int", K: "int", V: strconv.Itoa(g)}},
			{"h", Val{T: "float", K: "f64", V: hk.RatOfFloat(float64(h) / 4)}},
			{"id", Val{T: "int", K: "int", V: strconv.Itoa(i)}},
		}, Fields: []FV{{"v", v}}}
	}
	// arrival order is random already (values are), ids ascending; shuffle so that `id` is not pre-sorted
	for i := R - 1; i > 0; i-- {
		j := r.Intn(i + 1)
		rows[i], rows[j] = rows[j], rows[i]
	}
	keys := hk.Pick(r, largeKeyLists)
	if r.Chance(1, 10) {
		keys = nil
	}
	n, m := boundaryLimOff(r, R, e, "core")
	e.hit("core:large")
	e.hit(fmt.Sprintf("core:large:rows~%d00", R/100))
	return e.queryCase(keys, rows, n, m, "large", idx)
}

// genLargeDBCase: R points with a unique dimension (one result row each) and several pages.
func genLargeDBCase(r *hk.Rng, e *run) DBCase {
	R := largeSize(r, e.ctx.Tier)
	c := DBCase{Select: "*"}
	for i := 0; i < R; i++ {
		ts, g, h, v := largeVals(r, i)
		c.Points = append(c.Points, Point{TS: ts, Dims: map[string]Val{
			"g":  {T: "int", K: "int", V: strconv.Itoa(g)},
			"h":  {T: "float", K: "f64", V: hk.RatOfFloat(float64(h) / 4)},
			"id": {T: "int", K: "int", V: strconv.Itoa((i*7919 + 13) % R)}, // scrambled, still unique when gcd(7919,R)=1; ties otherwise are fine
		}, Vals: map[string]string{"v": v}})
	}
	nq := 5
	for i := 0; i < nq; i++ {
		q := DBQuery{Keys: hk.Pick(r, largeKeyLists)}
		q.Limit, q.Offset = boundaryLimOff(r, R, e, "db")
		c.Queries = append(c.Queries, q)
	}
	e.hit("db:large")
	e.hit(fmt.Sprintf("db:large:points~%d00", R/100))
	return c
}

// LargeSpec is the compact, replayable description of a large db case (corpus files): Rows
// points generated from Seed exactly as genLargeDBCase does, and explicit queries.  A
// disagreement found on it is reported with the expanded case (kind "db", all points).
type LargeSpec struct {
	Rows    int       `json:"rows"`
	Seed    uint64    `json:"seed"`
	Queries []DBQuery `json:"queries"`
}

func (l LargeSpec) expand() DBCase {
	r := hk.Derive(l.Seed, uint64(l.Rows))
	c := DBCase{Select: "*", Queries: l.Queries}
	for i := 0; i < l.Rows; i++ {
		ts, g, h, v := largeVals(r, i)
		c.Points = append(c.Points, Point{TS: ts, Dims: map[string]Val{
			"g":  {T: "int", K: "int", V: strconv.Itoa(g)},
			"h":  {T: "float", K: "f64", V: hk.RatOfFloat(float64(h) / 4)},
			"id": {T: "int", K: "int", V: strconv.Itoa((i*7919 + 13) % l.Rows)},
		}, Vals: map[string]string{"v": v}})
	}
	return c
}
