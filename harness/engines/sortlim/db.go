package sortlim

import (
	"context"
	"fmt"
	"io"
	"os"
	"sort"
	"strings"
	"sync"
	"time"

	"github.com/getlantern/golog"
	"github.com/getlantern/zenodb"
	"github.com/getlantern/zenodb/core"

	"zvh/hk"
)

// ---------------------------------------------------------------- end-to-end through an embedded DB

// Point is one insert.
type Point struct {
	TS   int64             `json:"ts"` // unix ns
	Dims map[string]Val    `json:"dims"`
	Vals map[string]string `json:"vals"` // rationals
}

// DBQuery is one ORDER BY / LIMIT / OFFSET combination run against the table.
type DBQuery struct {
	Keys   []Key `json:"keys"`
	Limit  int   `json:"limit"`
	Offset int   `json:"offset"`
}

// DBCase: a table filled with Points, a select list (+ optional GROUP BY) and queries.
type DBCase struct {
	Points  []Point   `json:"points"`
	Select  string    `json:"select"`
	GroupBy string    `json:"group_by,omitempty"`
	Queries []DBQuery `json:"queries"`
}

type dbState struct {
	db     *zenodb.DB
	dir    string
	tables int
}

var silence sync.Once

func (e *run) openDB() error {
	silence.Do(func() { golog.SetOutputs(io.Discard, io.Discard) })
	if e.db != nil && e.db.tables < 4 {
		return nil
	}
	e.closeDB()
	dir, err := os.MkdirTemp("", "zvh-*")
	if err != nil {
		return err
	}
	db, err := zenodb.NewDB(&zenodb.DBOpts{Dir: dir, VirtualTime: true, IterationCoalesceInterval: time.Millisecond})
	if err != nil {
		os.RemoveAll(dir)
		return err
	}
	e.db = &dbState{db: db, dir: dir}
	return nil
}

func (e *run) closeDB() {
	if e.db == nil {
		return
	}
	done := make(chan struct{})
	go func() { e.db.db.Close(); close(done) }()
	select {
	case <-done:
	case <-time.After(10 * time.Second):
	}
	os.RemoveAll(e.db.dir)
	e.db = nil
}

var errTimeout = fmt.Errorf("query timed out")

// query runs one SQL statement to completion.
func (st *dbState) query(sql string) (rows []Row, err error) {
	ctx, cancel := context.WithTimeout(context.Background(), 20*time.Second)
	defer cancel()
	var names []string
	var flats []*core.FlatRow
	var qerr error
	pn := hk.Recover(func() {
		var src core.FlatRowSource
		src, qerr = st.db.Query(sql, false, nil, true)
		if qerr != nil {
			return
		}
		_, qerr = src.Iterate(ctx, func(f core.Fields) error {
			names = f.Names()
			return nil
		}, func(r *core.FlatRow) (bool, error) {
			flats = append(flats, r)
			return true, nil
		})
	})
	if pn != nil {
		return nil, fmt.Errorf("panic: %v", pn)
	}
	if qerr == core.ErrDeadlineExceeded || ctx.Err() != nil {
		return nil, errTimeout
	}
	if qerr != nil {
		return nil, qerr
	}
	for _, f := range flats {
		rows = append(rows, rowOfFlat(f, names))
	}
	return rows, nil
}

func (c DBCase) sql(table string, q *DBQuery) string {
	var b strings.Builder
	fmt.Fprintf(&b, "SELECT %s FROM %s", c.Select, table)
	if c.GroupBy != "" {
		fmt.Fprintf(&b, " GROUP BY %s", c.GroupBy)
	}
	if q == nil {
		return b.String()
	}
	for i, k := range q.Keys {
		if i == 0 {
			b.WriteString(" ORDER BY ")
		} else {
			b.WriteString(", ")
		}
		b.WriteString(k.F)
		if k.D {
			b.WriteString(" DESC")
		} else if i%2 == 1 {
			b.WriteString(" ASC")
		}
	}
	// the grammar is MySQL's: LIMIT [offset,] rowcount
	switch {
	case q.Offset > 0:
		fmt.Fprintf(&b, " LIMIT %d, %d", q.Offset, q.Limit)
	case q.Limit > 0:
		fmt.Fprintf(&b, " LIMIT %d", q.Limit)
	}
	return b.String()
}

// load creates a fresh table, inserts the points and waits until a probe query sees them all.
func (e *run) load(c DBCase) (table string, ok bool, err error) {
	if err := e.openDB(); err != nil {
		return "", false, err
	}
	st := e.db
	st.tables++
	table = fmt.Sprintf("t%d", st.tables)
	stream := "in" + table
	err = st.db.CreateTable(&zenodb.TableOpts{Name: table, RetentionPeriod: time.Hour,
		SQL: fmt.Sprintf("SELECT SUM(v) AS v, SUM(w) AS w FROM %s GROUP BY *, period(1s)", stream)})
	if err != nil {
		return "", false, err
	}
	for _, p := range c.Points {
		dims := map[string]interface{}{}
		for k, v := range p.Dims {
			dims[k] = v.goVal()
		}
		vals := map[string]interface{}{}
		for k, v := range p.Vals {
			r, _ := hk.ParseRat(v)
			f, _ := r.Float64()
			vals[k] = f
		}
		if err := st.db.Insert(stream, time.Unix(0, p.TS), dims, vals); err != nil {
			return "", false, err
		}
	}
	deadline := time.Now().Add(6 * time.Second)
	// A query issued before the table's insert loop has started dereferences a nil memstore
	// inside a DB goroutine (rowStore.iterate: rs.memStore is set asynchronously by
	// processInserts) and kills the process, so first wait on the table statistics: the
	// insert channel is unbuffered, hence InsertedPoints > 0 implies the loop is running.
	for time.Now().Before(deadline) && st.db.TableStats(table).InsertedPoints < int64(len(c.Points)) {
		time.Sleep(2 * time.Millisecond)
	}
	if st.db.TableStats(table).InsertedPoints < int64(len(c.Points)) {
		return table, false, nil
	}
	for time.Now().Before(deadline) {
		rows, err := st.query("SELECT * FROM " + table)
		if err == nil {
			pts := 0.0
			for _, r := range rows {
				if v := r.get("_points"); v.T == "float" {
					rat, _ := hk.ParseRat(v.str())
					f, _ := rat.Float64()
					pts += f
				}
			}
			if int(pts) == len(c.Points) {
				return table, true, nil
			}
		}
		time.Sleep(4 * time.Millisecond)
	}
	return table, false, nil
}

func (e *run) dbCase(c DBCase, idx uint64) error {
	var table string
	loaded := false
	for attempt := 0; attempt < 2 && !loaded; attempt++ {
		t, ok, err := e.load(c)
		if err != nil {
			return err
		}
		table, loaded = t, ok
		if !ok {
			e.hit("db:load-retry")
		}
	}
	if !loaded {
		e.ctx.Res.Inconclusive++
		e.hit("db:inconclusive(inserts not visible)")
		return nil
	}
	st := e.db
	unordered, err := st.query(c.sql(table, nil))
	if err != nil {
		if err == errTimeout {
			e.ctx.Res.Inconclusive++
			return nil
		}
		return fmt.Errorf("baseline query %q: %v", c.sql(table, nil), err)
	}
	e.hit(fmt.Sprintf("db:rows:n=%d", min(len(unordered), 13)))
	for qi := range c.Queries {
		q := c.Queries[qi]
		one := c
		one.Queries = []DBQuery{q}
		cj := map[string]interface{}{"kind": "db", "db": one, "extra": map[string]string{"sql": c.sql("<t>", &q)}}
		e.ctx.Res.Count(cj, len(unordered) >= 2 && (len(q.Keys) > 0 || q.Limit > 0 || q.Offset > 0))
		ordered := unordered
		if len(q.Keys) > 0 {
			ordered, err = st.query(c.sql(table, &DBQuery{Keys: q.Keys}))
		}
		var out []Row
		if err == nil {
			out, err = st.query(c.sql(table, &q))
		}
		if err == errTimeout {
			e.ctx.Res.Inconclusive++
			continue
		}
		if err != nil {
			e.ctx.Res.Disagree(hk.Disagreement{Kind: "property", Case: cj, Detail: "query failed: " + err.Error(), PropertyFails: true, Index: idx})
			continue
		}
		if !comparableRows(q.Keys, unordered) {
			e.hit("db:skipped-not-comparable")
			continue
		}
		e.checkResult(cj, q.Keys, unordered, ordered, out, q.Limit, q.Offset, false, idx)
		if e.ctx.Model == nil {
			continue
		}
		if len(q.Keys) > 0 {
			if len(unordered) <= modelSortMax {
				ms, err := e.modelRows(map[string]interface{}{"engine": "sort", "op": "sort", "keys": q.Keys, "rows": rowsJSON(unordered)})
				if err != nil {
					return err
				}
				if !sameStrings(canonOrdered(q.Keys, ms), canonOrdered(q.Keys, ordered)) {
					e.ctx.Res.Disagree(hk.Disagreement{Kind: "model-vs-impl", Case: cj, Impl: rowsJSON(ordered), Model: rowsJSON(ms), Detail: "db: ordered result (modulo order inside ties)", Index: idx})
				}
			} else {
				e.hit("large:model-sort-skipped(quadratic)")
			}
			msl, err := e.modelRows(map[string]interface{}{"engine": "sort", "op": "slice", "rows": rowsJSON(ordered), "limit": q.Limit, "offset": q.Offset})
			if err != nil {
				return err
			}
			if !sameStrings(projs(q.Keys, msl), projs(q.Keys, out)) {
				e.ctx.Res.Disagree(hk.Disagreement{Kind: "model-vs-impl", Case: cj, Impl: rowsJSON(out), Model: rowsJSON(msl), Detail: "db: limit/offset of the ordered result", Index: idx})
			}
		} else {
			msl, err := e.modelRows(map[string]interface{}{"engine": "sort", "op": "slice", "rows": rowsJSON(unordered), "limit": q.Limit, "offset": q.Offset})
			if err != nil {
				return err
			}
			if len(msl) != len(out) {
				e.ctx.Res.Disagree(hk.Disagreement{Kind: "model-vs-impl", Case: cj, Impl: rowsJSON(out), Model: rowsJSON(msl), Detail: "db: number of rows under limit/offset", Index: idx})
			}
		}
	}
	return nil
}

// ---------------------------------------------------------------- generation

var dbKeyCols = []string{"d1", "d2", "d3", "v", "w", "_points", "d1", "d2", "zz"}

func genDBCase(r *hk.Rng) DBCase {
	c := DBCase{Select: "*"}
	d1type := hk.Pick(r, []colType{{"int", "int"}, {"str", ""}, {"float", "f64"}, {"bool", ""}, {"int", "i64"}})
	types := map[string]colType{"d1": d1type, "d2": {"str", ""}, "d3": {"int", "int"}}
	n := r.Range(1, 10)
	for i := 0; i < n; i++ {
		p := Point{TS: baseTS + int64(r.Intn(3))*1e9 + int64(r.Intn(2))*250e6, Dims: map[string]Val{}, Vals: map[string]string{}}
		for _, d := range []string{"d1", "d2", "d3"} {
			miss := 5
			if d == "d3" {
				miss = 2
			}
			if r.Chance(1, miss) {
				continue
			}
			p.Dims[d] = hk.Pick(r, pool(types[d]))
		}
		p.Vals["v"] = hk.Pick(r, fieldPool)
		if r.Chance(2, 3) {
			p.Vals["w"] = hk.Pick(r, fieldPool)
		}
		c.Points = append(c.Points, p)
	}
	switch r.Intn(5) {
	case 0:
		c.Select, c.GroupBy = "v, w", "d1, d2"
	case 1:
		c.Select, c.GroupBy = "v", "d2, period(2s)"
	}
	nq := r.Range(3, 6)
	for i := 0; i < nq; i++ {
		nk := r.Range(1, 4)
		if r.Chance(1, 8) {
			nk = 0
		}
		q := DBQuery{}
		timePos := r.Range(-1, nk-1)
		for k := 0; k < nk; k++ {
			if k == timePos {
				q.Keys = append(q.Keys, Key{"_time", r.Bool()})
			} else {
				q.Keys = append(q.Keys, Key{hk.Pick(r, dbKeyCols), r.Bool()})
			}
		}
		// the number of result rows is at most the number of points x periods; use n as the scale
		switch r.Intn(4) {
		case 0:
		case 1:
			q.Limit = n + r.Range(0, 2)
		default:
			q.Limit = r.Range(1, n)
		}
		switch r.Intn(4) {
		case 0:
		case 1:
			q.Offset = n + r.Range(0, 2)
		default:
			q.Offset = r.Range(1, n)
		}
		c.Queries = append(c.Queries, q)
	}
	return c
}

// dbHits records the distribution of one generated db case.
func (e *run) dbHits(c DBCase) {
	e.hit("db:select:" + c.Select + "/" + c.GroupBy)
	for _, q := range c.Queries {
		e.hit(fmt.Sprintf("db:keys:len=%d", len(q.Keys)))
		desc := 0
		for i, k := range q.Keys {
			if k.F == "_time" {
				e.hit(fmt.Sprintf("db:keys:_time@%d", i))
			}
			if k.D {
				desc++
			}
		}
		if desc > 0 && desc < len(q.Keys) {
			e.hit("db:keys:mixed-directions")
		}
		switch {
		case q.Limit == 0:
			e.hit("db:limit:absent(0)")
		case q.Limit >= len(c.Points):
			e.hit("db:limit:>=points")
		default:
			e.hit("db:limit:<points")
		}
		switch {
		case q.Offset == 0:
			e.hit("db:offset:absent(0)")
		case q.Offset >= len(c.Points):
			e.hit("db:offset:>=points")
		default:
			e.hit("db:offset:<points")
		}
	}
	dims := map[string]bool{}
	for _, p := range c.Points {
		ks := []string{}
		for k := range p.Dims {
			ks = append(ks, k)
		}
		sort.Strings(ks)
		dims[strings.Join(ks, ",")] = true
	}
	if len(dims) > 1 {
		e.hit("db:points:differing-dim-sets(missing dims)")
	}
}
