// Package seq is the correspondence engine for encoding.Sequence and expr.Expr
// (M-EXPR, M-SEQ): every exported operation is run on generated operands by the
// real code and by the Lean model, results are compared cell by cell, and the
// implementation-only property oracles of C05/C04 (merge of parts = accumulate
// all, commutativity, operands untouched) are evaluated on the same cases.
package seq

import (
	"bytes"
	"encoding/json"
	"fmt"
	"math"
	"reflect"
	"time"

	"github.com/getlantern/zenodb/encoding"
	"github.com/getlantern/zenodb/expr"

	"zvh/gen"
	"zvh/hk"
)

type Engine struct{}

var fields = []string{"a", "b", "c"}

var resolutions = []time.Duration{time.Second, 5 * time.Second, 7 * time.Second, time.Minute, time.Hour}

var base = time.Date(2020, 3, 1, 12, 0, 0, 0, time.UTC)

// rawOrNil keeps a model answer printable: an empty or invalid raw message (the model answered
// with an error) must not make the whole result unwritable.
// distributeShift pushes a SHIFT by off down to the table columns of a composite expression
// (a sub-expression that is a table column as a whole is not taken apart).
func distributeShift(n *gen.Node, off time.Duration, cols []expr.Expr) *gen.Node {
	ns := n.Build().String()
	for _, c := range cols {
		if c.String() == ns {
			// a table column as a whole
			return &gen.Node{Kind: "shift", Off: off, Kids: []*gen.Node{n}}
		}
	}
	switch n.Kind {
	case "bin", "if":
		c := *n
		c.Kids = make([]*gen.Node, len(n.Kids))
		for i, k := range n.Kids {
			c.Kids[i] = distributeShift(k, off, cols)
		}
		return &c
	case "const":
		return n
	}
	return &gen.Node{Kind: "shift", Off: off, Kids: []*gen.Node{n}}
}

// setPeriods is the content of a decoded sequence without its frame: period end -> cells, for
// the periods in which at least one cell is set.
func setPeriods(dec interface{}, res time.Duration) map[string]interface{} {
	b, _ := json.Marshal(dec)
	var d struct {
		Cells [][]map[string]interface{} `json:"cells"`
		Hi    string                     `json:"hi"`
	}
	out := map[string]interface{}{}
	if json.Unmarshal(b, &d) != nil {
		return out
	}
	var hi int64
	fmt.Sscan(d.Hi, &hi)
	for p, cells := range d.Cells {
		set := false
		for _, c := range cells {
			for _, v := range c {
				if v != nil {
					set = true
				}
			}
		}
		if set {
			out[fmt.Sprint(hi-int64(p)*int64(res))] = cells
		}
	}
	return out
}

func sameAny(a, b interface{}) bool {
	bb, _ := json.Marshal(b)
	return sameJSON(a, bb)
}

func rawOrNil(b json.RawMessage) interface{} {
	if len(b) == 0 || !json.Valid(b) {
		return nil
	}
	return b
}

func tstr(t time.Time) string {
	if t.IsZero() {
		return "zero"
	}
	return fmt.Sprint(t.UnixNano())
}

// decodeSeq renders an implementation sequence as the model's JSON.
func decodeSeq(n *gen.Node, e expr.Expr, s encoding.Sequence) interface{} {
	if len(s) == 0 {
		return nil
	}
	w := e.EncodedWidth()
	cells := []interface{}{}
	np := s.NumPeriods(w)
	for i := 0; i < np; i++ {
		c, _ := n.DecodeCells(s[8+i*w : 8+(i+1)*w])
		if c == nil {
			c = []interface{}{}
		}
		cells = append(cells, c)
	}
	return map[string]interface{}{"hi": fmt.Sprint(s.UntilInt()), "cells": cells}
}

func canon(v interface{}) string {
	b, _ := json.Marshal(v)
	var x interface{}
	json.Unmarshal(b, &x)
	b, _ = json.Marshal(x)
	return string(b)
}

func sameJSON(a interface{}, b json.RawMessage) bool {
	var x interface{}
	if err := json.Unmarshal(b, &x); err != nil {
		return false
	}
	var y interface{}
	ab, _ := json.Marshal(a)
	json.Unmarshal(ab, &y)
	return reflect.DeepEqual(x, y)
}

// backing returns the full backing array (up to capacity) of a slice.
func backing(s encoding.Sequence) []byte {
	if s == nil {
		return nil
	}
	return []byte(s[:cap(s)])
}

type opnd struct {
	s    encoding.Sequence
	copy []byte
}

func snap(s encoding.Sequence) opnd { return opnd{s, append([]byte(nil), backing(s)...)} }
func (o opnd) untouched() bool       { return bytes.Equal(o.copy, backing(o.s)) }

type tsPoint struct {
	ts time.Time
	p  gen.Point
}

// genSeq builds a sequence through real UpdateValue calls.
func genSeq(r *hk.Rng, n *gen.Node, e expr.Expr, res time.Duration, maxUpdates int, spread int) encoding.Sequence {
	s, _ := genSeqPts(r, n, e, res, maxUpdates, spread)
	return s
}

// genSeqPts also returns the updates it applied (for the raw-accumulation oracle).
func genSeqPts(r *hk.Rng, n *gen.Node, e expr.Expr, res time.Duration, maxUpdates int, spread int) (encoding.Sequence, []tsPoint) {
	var s encoding.Sequence
	var pts []tsPoint
	k := r.Range(0, maxUpdates)
	anchor := base.Add(time.Duration(r.Range(-spread, spread)) * res)
	for i := 0; i < k; i++ {
		ts := anchor.Add(time.Duration(r.Range(-spread, 2)) * res)
		p := gen.GenPoint(r, fields)
		s = s.UpdateValue(ts, p.Params(), p.Meta(), e, res, time.Time{})
		pts = append(pts, tsPoint{ts, p})
	}
	return s, pts
}

func valTol(n *gen.Node) float64 {
	if n.HasOp("/") || n.HasKind("avg") {
		return 1e-9
	}
	return 0
}

func (Engine) Run(ctx *hk.RunCtx) error {
	res := ctx.Res
	res.Rule = "generated (expression, operands, op) cases over acc/exmerge/update/merge/truncate/valueat/round; distinct by canonical request JSON; non-trivial = at least one operand non-empty and the expression has state"
	for i := 0; i < ctx.N; i++ {
		idx := uint64(ctx.From + i)
		r := hk.Derive(ctx.Seed, idx)
		if err := oneCase(ctx, r, idx); err != nil {
			return err
		}
	}
	return nil
}

func oneCase(ctx *hk.RunCtx, r *hk.Rng, idx uint64) error {
	resn := hk.Pick(r, resolutions)
	o := gen.ExprOpts{Fields: fields, MaxDepth: r.Range(0, 3), Res: resn}
	n := gen.GenExpr(r, o)
	e := n.Build()
	if err := e.Validate(); err != nil {
		ctx.Res.Hit("invalid-expr")
		return nil
	}
	ej := n.JSON()
	ops := []string{"acc", "acc", "update", "update", "merge", "merge", "truncate", "truncate", "valueat", "round", "submerge", "submerge", "submerge"}
	op := hk.Pick(r, ops)
	ctx.Res.Hit("op:" + op)
	switch op {
	case "acc":
		return caseAcc(ctx, r, idx, n, e, ej)
	case "update":
		return caseUpdate(ctx, r, idx, n, e, ej, resn)
	case "merge":
		return caseMerge(ctx, r, idx, n, e, ej, resn)
	case "truncate":
		return caseTruncate(ctx, r, idx, n, e, ej, resn)
	case "valueat":
		return caseValueAt(ctx, r, idx, n, e, ej, resn)
	case "round":
		return caseRound(ctx, r, idx, resn)
	case "submerge":
		return caseSubMerge(ctx, r, idx, resn)
	}
	return nil
}

// caseSubMerge mirrors one output column of bytetree.node.doUpdate (params == nil):
// out = out.SubMerge(in_i, ...) for every table column i for which the query
// expression has a sub-merger.
func caseSubMerge(ctx *hk.RunCtx, r *hk.Rng, idx uint64, otherRes time.Duration) error {
	scale := hk.Pick(r, []int{1, 1, 2, 3, 5})
	resn := time.Duration(scale) * otherRes
	o := gen.ExprOpts{Fields: fields, MaxDepth: 1, Res: otherRes, NoShift: true, NoUnary: true}
	nIn := r.Range(1, 3)
	ins := make([]*gen.Node, nIn)
	for i := range ins {
		switch r.Intn(4) {
		case 0:
			ins[i] = &gen.Node{Kind: "if", C: r.Intn(len(gen.Conds)), Kids: []*gen.Node{gen.GenLeaf(r, o)}}
		default:
			ins[i] = gen.GenLeaf(r, o)
		}
	}
	pickIn := func() *gen.Node { return ins[r.Intn(nIn)] }
	var n *gen.Node
	switch r.Intn(8) {
	case 0, 1:
		n = pickIn()
	case 2, 3:
		op := hk.Pick(r, []string{"+", "-", "*", "/", "<", ">="})
		n = &gen.Node{Kind: "bin", Name: op, Kids: []*gen.Node{pickIn(), pickIn()}}
		if r.Chance(1, 3) {
			n = &gen.Node{Kind: "bin", Name: "+", Kids: []*gen.Node{n, {Kind: "const", Const: 2}}}
		}
	case 4:
		// the wrapped expression is a single table column or a composite assembled from several
		// (then its width differs from the width of each column it is sub-merged from)
		var w *gen.Node
		switch r.Intn(5) {
		case 0, 1:
			w = pickIn()
		case 2, 3:
			w = &gen.Node{Kind: "bin", Name: hk.Pick(r, []string{"+", "-", "*", "/"}), Kids: []*gen.Node{pickIn(), pickIn()}}
			if r.Chance(1, 4) {
				w = &gen.Node{Kind: "bin", Name: "+", Kids: []*gen.Node{w, pickIn()}}
			}
		default:
			w = &gen.Node{Kind: "if", C: r.Intn(len(gen.Conds)), Kids: []*gen.Node{{Kind: "bin", Name: "+", Kids: []*gen.Node{pickIn(), pickIn()}}}}
		}
		n = &gen.Node{Kind: "shift", Off: -time.Duration(r.Range(0, 4)) * otherRes, Kids: []*gen.Node{w}}
		if r.Chance(1, 3) {
			n = &gen.Node{Kind: "bin", Name: "-", Kids: []*gen.Node{pickIn(), n}}
		}
	case 5:
		n = &gen.Node{Kind: "if", C: r.Intn(len(gen.Conds)), Kids: []*gen.Node{pickIn()}}
	case 6:
		n = &gen.Node{Kind: "unary", Name: "LN", Kids: []*gen.Node{pickIn()}}
	default:
		n = gen.GenLeaf(r, o) // usually unrelated to the table columns
	}
	e := n.Build()
	if err := e.Validate(); err != nil {
		ctx.Res.Hit("invalid-expr")
		return nil
	}
	inEs := make([]expr.Expr, nIn)
	inJ := make([]interface{}, nIn)
	for i, in := range ins {
		inEs[i] = in.Build()
		inJ[i] = in.JSON()
	}
	sms := e.SubMergers(inEs)
	asOf := pickBound(r, otherRes)
	until := pickBound(r, otherRes)
	if r.Chance(1, 2) {
		asOf = time.Time{}
	}
	if r.Chance(1, 2) {
		until = time.Time{}
	}
	if e.Shift() != 0 && asOf.IsZero() {
		// a zero asOf minus the shift overflows int64 inside RoundTimeUntilDown in the
		// real code (outside the model's InRange hypothesis); group always passes the
		// table's non-zero asOf
		asOf = base.Add(-time.Duration(r.Range(5, 40)) * otherRes)
	}
	var stride time.Duration
	if scale > 1 && r.Chance(1, 4) {
		stride = time.Duration(r.Range(1, scale-1)) * otherRes
	}
	var out encoding.Sequence
	// C05 oracle on the implementation alone (SHIFT of a composite at the top): SHIFT distributes
	// over the operators, so sub-merging SHIFT(x op y) from the table columns equals sub-merging
	// SHIFT(x) op SHIFT(y) from the same columns (same byte layout, same bounds)
	var outRef encoding.Sequence
	var dE expr.Expr
	var dSms []expr.SubMerge
	if n.Kind == "shift" && n.Off != 0 && (n.Kids[0].Kind == "bin" || n.Kids[0].Kind == "if") {
		dE = distributeShift(n.Kids[0], n.Off, inEs).Build()
		if dE.Validate() == nil && dE.EncodedWidth() == e.EncodedWidth() {
			dSms = dE.SubMergers(inEs)
		} else {
			dE = nil
		}
	}
	rounds := r.Range(1, 3)
	for round := 0; round < rounds; round++ {
		meta := gen.GenPoint(r, fields)
		inSeqs := make([]encoding.Sequence, nIn)
		inSJ := make([]interface{}, nIn)
		snaps := make([]opnd, nIn)
		for i := range ins {
			inSeqs[i] = genSeq(r, ins[i], inEs[i], otherRes, 6, 6)
			inSJ[i] = decodeSeq(ins[i], inEs[i], inSeqs[i])
			snaps[i] = snap(inSeqs[i])
		}
		req := map[string]interface{}{"engine": "seq", "op": "submerge", "e": n.JSON(), "inExs": inJ, "ins": inSJ,
			"out": decodeSeq(n, e, out), "res": fmt.Sprint(int64(resn)), "otherRes": fmt.Sprint(int64(otherRes)),
			"asof": tstr(asOf), "until": tstr(until), "stride": fmt.Sprint(int64(stride)), "pt": meta.JSON()}
		any := false
		for _, sm := range sms {
			if sm != nil {
				any = true
			}
		}
		ctx.Res.Count(req, any && e.EncodedWidth() > 0)
		if any {
			ctx.Res.Hit("submerge:has-submerger")
		} else {
			ctx.Res.Hit("submerge:no-submerger")
		}
		if stride > 0 {
			ctx.Res.Hit("submerge:stride")
		}
		if e.Shift() != 0 {
			ctx.Res.Hit("submerge:shift")
			if n.Kind == "shift" && n.Kids[0].Kind != "field" && n.Kids[0].Kind != "agg" && n.Kids[0].Kind != "avg" {
				ctx.Res.Hit("submerge:shift-of-composite")
			}
		}
		next := out
		if pn := hk.Recover(func() {
			for i, sm := range sms {
				if sm == nil {
					continue
				}
				next = next.SubMerge(inSeqs[i], meta.Meta(), resn, otherRes, e, inEs[i], sm, asOf, until, stride)
			}
		}); pn != nil {
			ctx.Res.Disagree(hk.Disagreement{Kind: "model-vs-impl", Case: req, Detail: fmt.Sprintf("SubMerge: impl panicked: %v", pn), Index: idx})
			return nil
		}
		for i := range snaps {
			if !snaps[i].untouched() {
				ctx.Res.Disagree(hk.Disagreement{Kind: "property", Case: req, Detail: "SubMerge modified its source operand", PropertyFails: true, Index: idx})
			}
		}
		if dE != nil {
			if pn := hk.Recover(func() {
				for i, sm := range dSms {
					if sm == nil {
						continue
					}
					outRef = outRef.SubMerge(inSeqs[i], meta.Meta(), resn, otherRes, dE, inEs[i], sm, asOf, until, stride)
				}
			}); pn == nil {
				ctx.Res.Hit("submerge:shift-distributes")
				if a, b := decodeSeq(n, e, next), decodeSeq(n, e, outRef); !sameAny(setPeriods(a, resn), setPeriods(b, resn)) {
					ctx.Res.Disagree(hk.Disagreement{Kind: "property", Case: req, Impl: a, Model: b, PropertyFails: true, Index: idx,
						Detail: fmt.Sprintf("sub-merging %s from the table columns differs from sub-merging %s from the same columns: the shifted periods of a composite are not read from where they are stored", e, dE)})
				}
			}
		}
		impl := decodeSeq(n, e, next)
		mo, err := ctx.Model.Call(req)
		if err != nil {
			return err
		}
		var m struct {
			Seq json.RawMessage `json:"seq"`
		}
		json.Unmarshal(mo, &m)
		if !sameJSON(impl, m.Seq) {
			ctx.Res.Disagree(hk.Disagreement{Kind: "model-vs-impl", Case: req, Impl: impl, Model: m.Seq, Detail: "SubMerge", Index: idx})
			return nil
		}
		out = next
	}
	return nil
}

func accImpl(e expr.Expr, pts []gen.Point) []byte {
	b := make([]byte, e.EncodedWidth())
	for _, p := range pts {
		e.Update(b, p.Params(), p.Meta())
	}
	return b
}

func getVal(e expr.Expr, b []byte) interface{} {
	v, ok, _ := e.Get(b)
	if !ok {
		return nil
	}
	return v
}

// cmpVal compares the implementation's Get value with the model's.
func cmpVal(impl interface{}, model interface{}, tol float64) (bool, bool) {
	// returns (equal, comparable)
	if impl == nil || model == nil {
		return impl == nil && model == nil, true
	}
	f := impl.(float64)
	if math.IsNaN(f) || math.IsInf(f, 0) || math.Abs(f) > 1e300 {
		return true, false
	}
	return hk.RatEqFloat(model.(string), f, tol), true
}

func caseAcc(ctx *hk.RunCtx, r *hk.Rng, idx uint64, n *gen.Node, e expr.Expr, ej map[string]interface{}) error {
	k := r.Range(0, 10)
	pts := make([]gen.Point, k)
	pj := make([]interface{}, k)
	for i := range pts {
		pts[i] = gen.GenPoint(r, fields)
		pj[i] = pts[i].JSON()
	}
	req := map[string]interface{}{"engine": "seq", "op": "acc", "e": ej, "pts": pj}
	ctx.Res.Count(req, k > 0 && e.EncodedWidth() > 0)
	all := accImpl(e, pts)
	implCells, _ := n.DecodeCells(all)
	if implCells == nil {
		implCells = []interface{}{}
	}
	out, err := ctx.Model.Call(req)
	if err != nil {
		return err
	}
	var mo struct {
		Cells json.RawMessage `json:"cells"`
		Val   interface{}     `json:"val"`
	}
	json.Unmarshal(out, &mo)
	hasUnary := n.HasKind("unary")
	if !sameJSON(implCells, mo.Cells) {
		ctx.Res.Disagree(hk.Disagreement{Kind: "model-vs-impl", Case: req, Impl: implCells, Model: rawOrNil(mo.Cells), Detail: "acc cells", Index: idx})
	} else if !hasUnary {
		if eq, ok := cmpVal(getVal(e, all), mo.Val, valTol(n)); ok && !eq {
			ctx.Res.Disagree(hk.Disagreement{Kind: "model-vs-impl", Case: req, Impl: getVal(e, all), Model: mo.Val, Detail: "acc value", Index: idx})
		} else if !ok {
			ctx.Res.Hit("value-not-comparable")
		}
	}

	// property oracle (C05) on the implementation alone: split in 2 or 3 parts,
	// merge the partial states, compare with the single accumulation; operands untouched
	cut1 := r.Range(0, k)
	cut2 := r.Range(cut1, k)
	parts := [][]gen.Point{pts[:cut1], pts[cut1:cut2], pts[cut2:]}
	states := [][]byte{accImpl(e, parts[0]), accImpl(e, parts[1]), accImpl(e, parts[2])}
	copies := [][]byte{append([]byte(nil), states[0]...), append([]byte(nil), states[1]...), append([]byte(nil), states[2]...)}
	w := e.EncodedWidth()
	m01 := make([]byte, w)
	e.Merge(m01, states[0], states[1])
	m012 := make([]byte, w)
	e.Merge(m012, m01, states[2])
	m12 := make([]byte, w)
	e.Merge(m12, states[1], states[2])
	m0_12 := make([]byte, w)
	e.Merge(m0_12, states[0], m12)
	m10 := make([]byte, w)
	e.Merge(m10, states[1], states[0])
	fail := ""
	if !bytes.Equal(m012, all) {
		fail = "merge of parts differs from accumulating all points"
	} else if !bytes.Equal(m0_12, m012) {
		fail = "merge not associative"
	} else if !bytes.Equal(m10, m01) {
		fail = "merge not commutative"
	}
	for i := range states {
		if !bytes.Equal(states[i], copies[i]) {
			fail = "Merge modified an operand"
		}
	}
	if fail != "" {
		cm, _ := n.DecodeCells(m012)
		ctx.Res.Disagree(hk.Disagreement{Kind: "property", Case: map[string]interface{}{"req": req, "cuts": []int{cut1, cut2}}, Impl: cm, Model: implCells, Detail: fail, PropertyFails: true, Index: idx})
	}
	// model merge of the implementation's partial states
	c0, _ := n.DecodeCells(states[0])
	c1, _ := n.DecodeCells(states[1])
	if c0 == nil {
		c0, c1 = []interface{}{}, []interface{}{}
	}
	req2 := map[string]interface{}{"engine": "seq", "op": "exmerge", "e": ej, "x": c0, "y": c1}
	out2, err := ctx.Model.Call(req2)
	if err != nil {
		return err
	}
	json.Unmarshal(out2, &mo)
	ic, _ := n.DecodeCells(m01)
	if ic == nil {
		ic = []interface{}{}
	}
	if !sameJSON(ic, mo.Cells) {
		ctx.Res.Disagree(hk.Disagreement{Kind: "model-vs-impl", Case: req2, Impl: ic, Model: rawOrNil(mo.Cells), Detail: "exmerge cells", Index: idx})
	}
	return nil
}

func pickTB(r *hk.Rng, resn time.Duration) time.Time {
	switch r.Intn(4) {
	case 0:
		return time.Time{}
	case 1:
		return base.Add(-time.Duration(r.Range(0, 8))*resn + time.Duration(r.Range(-1, 1))*time.Millisecond)
	default:
		return base.Add(-time.Duration(r.Range(0, 30)) * resn)
	}
}

func caseUpdate(ctx *hk.RunCtx, r *hk.Rng, idx uint64, n *gen.Node, e expr.Expr, ej map[string]interface{}, resn time.Duration) error {
	s := genSeq(r, n, e, resn, 6, 6)
	ts := base.Add(time.Duration(r.Range(-10, 8))*resn + time.Duration(r.Range(-1, 1))*time.Nanosecond*time.Duration(r.Range(0, 1)))
	tb := pickTB(r, resn)
	p := gen.GenPoint(r, fields)
	before := decodeSeq(n, e, s)
	req := map[string]interface{}{"engine": "seq", "op": "update", "e": ej, "res": fmt.Sprint(int64(resn)),
		"seq": before, "ts": tstr(ts), "pt": p.JSON(), "tb": tstr(tb)}
	ctx.Res.Count(req, e.EncodedWidth() > 0)
	var out encoding.Sequence
	if pn := hk.Recover(func() { out = s.UpdateValue(ts, p.Params(), p.Meta(), e, resn, tb) }); pn != nil {
		ctx.Res.Disagree(hk.Disagreement{Kind: "model-vs-impl", Case: req, Detail: fmt.Sprintf("impl panicked: %v", pn), Index: idx})
		return nil
	}
	impl := decodeSeq(n, e, out)
	mo, err := ctx.Model.Call(req)
	if err != nil {
		return err
	}
	var m struct {
		Seq json.RawMessage `json:"seq"`
	}
	json.Unmarshal(mo, &m)
	if !sameJSON(impl, m.Seq) {
		ctx.Res.Disagree(hk.Disagreement{Kind: "model-vs-impl", Case: req, Impl: impl, Model: m.Seq, Detail: "UpdateValue", Index: idx})
	}
	return nil
}

func caseMerge(ctx *hk.RunCtx, r *hk.Rng, idx uint64, n *gen.Node, e expr.Expr, ej map[string]interface{}, resn time.Duration) error {
	a, ptsA := genSeqPts(r, n, e, resn, 6, 6)
	b, ptsB := genSeqPts(r, n, e, resn, 6, 6)
	tb := pickTB(r, resn)
	// C05 oracle (implementation only): merging the two stored series = the series obtained by
	// accumulating all their points into one (every period, no truncation)
	{
		var all encoding.Sequence
		for _, tp := range append(append([]tsPoint{}, ptsA...), ptsB...) {
			all = all.UpdateValue(tp.ts, tp.p.Params(), tp.p.Meta(), e, resn, time.Time{})
		}
		var merged encoding.Sequence
		if pn := hk.Recover(func() { merged = a.Merge(b, e, resn, time.Time{}) }); pn == nil {
			if canon(liveView(n, e, merged, resn, time.Time{})) != canon(liveView(n, e, all, resn, time.Time{})) {
				ctx.Res.Disagree(hk.Disagreement{Kind: "property", Case: map[string]interface{}{"e": ej, "res": fmt.Sprint(int64(resn)),
					"a": decodeSeq(n, e, a), "b": decodeSeq(n, e, b)}, Impl: decodeSeq(n, e, merged), Model: decodeSeq(n, e, all),
					Detail: "Sequence.Merge of two series differs from accumulating all their points into one series", PropertyFails: true, Index: idx})
			}
		}
	}
	req := map[string]interface{}{"engine": "seq", "op": "merge", "e": ej, "res": fmt.Sprint(int64(resn)),
		"a": decodeSeq(n, e, a), "b": decodeSeq(n, e, b), "tb": tstr(tb)}
	ctx.Res.Count(req, len(a) > 0 && len(b) > 0 && e.EncodedWidth() > 0)
	sa, sb := snap(a), snap(b)
	var out encoding.Sequence
	if pn := hk.Recover(func() { out = a.Merge(b, e, resn, tb) }); pn != nil {
		ctx.Res.Disagree(hk.Disagreement{Kind: "model-vs-impl", Case: req, Detail: fmt.Sprintf("impl panicked: %v", pn), Index: idx})
		return nil
	}
	impl := decodeSeq(n, e, out)
	if !sa.untouched() || !sb.untouched() {
		ctx.Res.Disagree(hk.Disagreement{Kind: "property", Case: req, Detail: "Merge modified an operand", PropertyFails: true, Index: idx})
	}
	// commutativity in value (C05), implementation only
	// (compared on the periods that are still live, i.e. end after truncateBefore:
	// what Merge returns for wholly expired input is not constrained)
	out2 := b.Merge(a, e, resn, tb)
	if canon(liveView(n, e, out2, resn, tb)) != canon(liveView(n, e, out, resn, tb)) {
		ctx.Res.Disagree(hk.Disagreement{Kind: "property", Case: req, Impl: impl, Model: decodeSeq(n, e, out2), Detail: "Sequence.Merge not commutative", PropertyFails: true, Index: idx})
	}
	mo, err := ctx.Model.Call(req)
	if err != nil {
		return err
	}
	var m struct {
		Seq json.RawMessage `json:"seq"`
	}
	json.Unmarshal(mo, &m)
	if !sameJSON(impl, m.Seq) {
		ctx.Res.Disagree(hk.Disagreement{Kind: "model-vs-impl", Case: req, Impl: impl, Model: m.Seq, Detail: "Merge", Index: idx})
	}
	return nil
}

// liveView maps period end -> non-empty state for the periods ending after tb.
func liveView(n *gen.Node, e expr.Expr, s encoding.Sequence, resn time.Duration, tb time.Time) map[string]interface{} {
	out := map[string]interface{}{}
	if len(s) == 0 {
		return out
	}
	w := e.EncodedWidth()
	empty := make([]byte, w)
	for i := 0; i < s.NumPeriods(w); i++ {
		end := s.Until().Add(-time.Duration(i) * resn)
		if !tb.IsZero() && !end.After(tb) {
			continue
		}
		b := s[8+i*w : 8+(i+1)*w]
		if bytes.Equal(b, empty) {
			continue
		}
		c, _ := n.DecodeCells(b)
		out[fmt.Sprint(end.UnixNano())] = c
	}
	return out
}

func pickBound(r *hk.Rng, resn time.Duration) time.Time {
	switch r.Intn(5) {
	case 0:
		return time.Time{}
	case 1:
		// off-grid
		return base.Add(time.Duration(r.Range(-9, 6))*resn + time.Duration(r.Range(1, 999))*time.Millisecond)
	default:
		return base.Add(time.Duration(r.Range(-9, 6)) * resn)
	}
}

func caseTruncate(ctx *hk.RunCtx, r *hk.Rng, idx uint64, n *gen.Node, e expr.Expr, ej map[string]interface{}, resn time.Duration) error {
	s := genSeq(r, n, e, resn, 8, 6)
	asOf := pickBound(r, resn)
	until := pickBound(r, resn)
	req := map[string]interface{}{"engine": "seq", "op": "truncate", "e": ej, "res": fmt.Sprint(int64(resn)),
		"seq": decodeSeq(n, e, s), "asof": tstr(asOf), "until": tstr(until)}
	ctx.Res.Count(req, len(s) > 0 && e.EncodedWidth() > 0 && !(asOf.IsZero() && until.IsZero()))
	sn := snap(s)
	var out encoding.Sequence
	if pn := hk.Recover(func() { out = s.Truncate(e.EncodedWidth(), resn, asOf, until) }); pn != nil {
		ctx.Res.Disagree(hk.Disagreement{Kind: "model-vs-impl", Case: req, Detail: fmt.Sprintf("impl panicked: %v", pn), Index: idx})
		return nil
	}
	impl := decodeSeq(n, e, out)
	if !sn.untouched() {
		ctx.Res.Disagree(hk.Disagreement{Kind: "property", Case: req, Detail: "Truncate modified its operand", PropertyFails: true, Index: idx,
			Impl: decodeSeq(n, e, s)})
	}
	mo, err := ctx.Model.Call(req)
	if err != nil {
		return err
	}
	var m struct {
		Seq json.RawMessage `json:"seq"`
	}
	json.Unmarshal(mo, &m)
	if !sameJSON(impl, m.Seq) {
		ctx.Res.Disagree(hk.Disagreement{Kind: "model-vs-impl", Case: req, Impl: impl, Model: m.Seq, Detail: "Truncate", Index: idx})
	}
	return nil
}

func caseValueAt(ctx *hk.RunCtx, r *hk.Rng, idx uint64, n *gen.Node, e expr.Expr, ej map[string]interface{}, resn time.Duration) error {
	if n.HasKind("unary") {
		ctx.Res.Hit("valueat-skip-unary")
		return nil
	}
	if e.IsConstant() && e.EncodedWidth() > 0 {
		// aggregate over a constant: IsConstant() is true and Get(nil) panics in
		// the real code; not a Sequence question (followed up under C16)
		ctx.Res.Hit("valueat-skip-constant-aggregate")
		return nil
	}
	s := genSeq(r, n, e, resn, 8, 6)
	t := pickBound(r, resn)
	if t.IsZero() {
		t = base
	}
	req := map[string]interface{}{"engine": "seq", "op": "valueat", "e": ej, "res": fmt.Sprint(int64(resn)),
		"seq": decodeSeq(n, e, s), "t": tstr(t)}
	ctx.Res.Count(req, len(s) > 0 && e.EncodedWidth() > 0)
	sn := snap(s)
	v, found := s.ValueAtTime(t, e, resn)
	var impl interface{}
	if found {
		impl = v
	}
	if !sn.untouched() {
		ctx.Res.Disagree(hk.Disagreement{Kind: "property", Case: req, Detail: "ValueAtTime modified its operand", PropertyFails: true, Index: idx})
	}
	mo, err := ctx.Model.Call(req)
	if err != nil {
		return err
	}
	var m struct {
		Val interface{} `json:"val"`
	}
	json.Unmarshal(mo, &m)
	if eq, ok := cmpVal(impl, m.Val, valTol(n)); ok && !eq {
		ctx.Res.Disagree(hk.Disagreement{Kind: "model-vs-impl", Case: req, Impl: impl, Model: m.Val, Detail: "ValueAtTime", Index: idx})
	}
	return nil
}

func caseRound(ctx *hk.RunCtx, r *hk.Rng, idx uint64, resn time.Duration) error {
	t := base.Add(time.Duration(r.Range(-20, 20))*resn + time.Duration(r.Range(0, 3))*time.Duration(r.Range(0, int(resn/2))))
	hi := base.Add(time.Duration(r.Range(-20, 20))*resn + time.Duration(r.Range(0, 1))*time.Duration(r.Range(0, 999)))
	if r.Chance(1, 6) {
		hi = time.Time{}
	}
	if r.Chance(1, 12) {
		t = time.Time{}
	}
	req := map[string]interface{}{"engine": "seq", "op": "round", "t": tstr(t), "res": fmt.Sprint(int64(resn)), "hi": tstr(hi)}
	ctx.Res.Count(req, !t.IsZero())
	impl := map[string]interface{}{
		"up":        tstr(encoding.RoundTimeUp(t, resn)),
		"down":      tstr(encoding.RoundTimeDown(t, resn)),
		"untilUp":   tstr(encoding.RoundTimeUntilUp(t, resn, hi)),
		"untilDown": tstr(encoding.RoundTimeUntilDown(t, resn, hi)),
	}
	mo, err := ctx.Model.Call(req)
	if err != nil {
		return err
	}
	if !sameJSON(impl, mo) {
		ctx.Res.Disagree(hk.Disagreement{Kind: "model-vs-impl", Case: req, Impl: impl, Model: rawOrNil(mo), Detail: "rounding", Index: idx})
	}
	return nil
}
