package snapshot

import (
	"context"
	"fmt"
	"sync"
	"sync/atomic"
	"time"

	"github.com/getlantern/bytemap"
	"github.com/getlantern/zenodb/encoding"

	"zvh/dbk"
	"zvh/hk"
)

// stressCase: true parallelism, sampled.  A writer goroutine inserts point i = 0, 1, 2, … into
// key i mod nk, period (i div nk) mod 3, every point with a = b = 1, while memstore-inclusive
// scans run freely (and flushes are forced now and then).  Whatever prefix of the writer's
// stream a scan observes, its rows must all agree on it:
//   - inside a row, for every period: _points = SUM(a) = SUM(b)                 (no torn row),
//   - per key, the writer points it shows are the first w_k of that key's points, spread over
//     the periods as the first w_k are                                        (no torn series),
//   - across rows: with n = Σ w_k, w_k = |{ i < n : i mod nk = k }| for every k (ONE prefix).
//
// The oracle does not depend on timing; a failure is a genuine violation (replay = same
// seed/index, statistically).
func stressCase(ctx *hk.RunCtx, r *hk.Rng, idx uint64) error {
	s := &dbk.Schema{Table: "t", Stream: "inbound", Fields: ab(), Res: time.Second, WhereC: -1}
	fixSchema(s)
	nk := r.Range(3, 8)
	nscans := r.Range(3, 6)
	// "big copy" variant: thousands of cold keys make Tree.Copy take milliseconds, the hot keys
	// are spread among them (same depth of the radix tree), the writer is not throttled: several
	// inserts are applied while the copy is being taken unless the lock keeps them out
	cold := 0
	if r.Chance(1, 6) {
		cold = 4000
		nscans = 3
	}
	hotName := func(k int) string {
		if cold == 0 {
			return fmt.Sprintf("k%d", k)
		}
		return fmt.Sprintf("c%05d", (k*cold)/nk+cold/(2*nk))
	}
	hotIndex := map[string]int{}
	for k := 0; k < nk; k++ {
		hotIndex[hotName(k)] = k
	}
	preFlush := r.Chance(1, 2)
	midFlush := r.Chance(1, 2)
	caseDesc := map[string]interface{}{"engine": "snapshot", "mode": "stress", "keys": nk, "scans": nscans,
		"preFlush": preFlush, "midFlush": midFlush, "coldKeys": cold, "seed": ctx.Seed, "index": idx + stressBase}

	db, err := dbk.Open(dbk.Opts{})
	if err != nil {
		return err
	}
	defer closeDB(ctx, db)
	if err := db.CreateTable(s); err != nil {
		ctx.Res.Hit("create-table-error")
		return nil
	}
	fields := db.VerifFields(s.Table)
	one := map[string]interface{}{"a": float64(1), "b": float64(1)}
	// preload: one point per key and period 0..2, so that the writer's points hit existing periods
	for k := 0; k < nk; k++ {
		for p := 0; p < 3; p++ {
			db.Insert(s.Stream, dbk.Point{TS: tsOf(s, p, 100), Dims: keyDims(hotName(k)), Vals: one})
		}
	}
	for c := 0; c < cold; c++ {
		name := fmt.Sprintf("c%05d", c)
		if _, hot := hotIndex[name]; !hot {
			db.Insert(s.Stream, dbk.Point{TS: tsOf(s, 0, 100), Dims: keyDims(name), Vals: one})
		}
	}
	if !db.Quiesce(waitLimit) {
		ctx.Res.Inconclusive++
		return nil
	}
	if preFlush {
		db.VerifForceFlush(s.Table)
	}

	var stop int32
	var wg sync.WaitGroup
	var written int64
	wg.Add(1)
	go func() {
		defer wg.Done()
		for i := 0; atomic.LoadInt32(&stop) == 0; i++ {
			k := i % nk
			p := (i / nk) % 3
			if err := db.Insert(s.Stream, dbk.Point{TS: tsOf(s, p, 500), Dims: keyDims(hotName(k)), Vals: one}); err != nil {
				return
			}
			atomic.AddInt64(&written, 1)
			// bounded backlog: let the table catch up every few inserts
			if (cold == 0 && i%8 == 7 || cold > 0 && i%256 == 255) && !db.Quiesce(waitLimit) {
				return
			}
		}
	}()

	// head start: the WAL hands inserts to the table in batches, a few milliseconds late
	for t0 := time.Now(); atomic.LoadInt64(&written) < 16 && time.Since(t0) < 2*time.Second; {
		time.Sleep(200 * time.Microsecond)
	}

	type row struct {
		name string
		cols []encoding.Sequence
	}
	var fails []string
	structural := false // a failure other than "rows reflect different amounts of the stream"
	prefixes := []int{}
	for sc := 0; sc < nscans && len(fails) == 0; sc++ {
		var rows []row
		done := make(chan error, 1)
		go func() {
			done <- db.VerifIterate(context.Background(), s.Table, nil, true, func(key bytemap.ByteMap, vals []encoding.Sequence) (bool, error) {
				name, _ := key.AsMap()["d"].(string)
				if _, hot := hotIndex[name]; !hot {
					return true, nil
				}
				rows = append(rows, row{name: name, cols: vals})
				if cold == 0 {
					time.Sleep(3 * time.Millisecond) // widen the window between deliveries
				}
				return true, nil
			})
		}()
		if midFlush && sc%2 == 1 {
			time.Sleep(300 * time.Microsecond)
			db.VerifForceFlush(s.Table)
		}
		select {
		case err := <-done:
			if err != nil {
				ctx.Res.Note("stress case %d: scan error %v", idx, err)
				ctx.Res.Inconclusive++
				atomic.StoreInt32(&stop, 1)
				wg.Wait()
				return nil
			}
		case <-time.After(waitLimit):
			ctx.Res.Note("stress case %d: scan did not finish within %v", idx, waitLimit)
			ctx.Res.Inconclusive++
			atomic.StoreInt32(&stop, 1)
			wg.Wait()
			return nil
		}
		// ---- oracle
		w := make([]int, nk)
		seen := map[string]bool{}
		for _, rw := range rows {
			k := hotIndex[rw.name]
			if seen[rw.name] {
				fails = append(fails, fmt.Sprintf("scan %d: key %s delivered twice", sc, rw.name))
				structural = true
			}
			seen[rw.name] = true
			perPeriod := map[int]int{}
			for p := 0; p < 8; p++ {
				var vals [3]float64
				var end int64
				any := false
				for fi := 0; fi < 3 && fi < len(rw.cols); fi++ {
					if len(rw.cols[fi]) == 0 {
						continue
					}
					x, found := rw.cols[fi].ValueAt(p, fields[fi].Expr)
					if found {
						vals[fi] = x
						any = true
						end = rw.cols[fi].UntilInt() - int64(p)*int64(s.Res)
					}
				}
				if !any {
					continue
				}
				if vals[0] != vals[1] || vals[0] != vals[2] {
					fails = append(fails, fmt.Sprintf("scan %d: torn row: key %s period end %d has _points=%v SUM(a)=%v SUM(b)=%v", sc, rw.name, end, vals[0], vals[1], vals[2]))
				}
				perPeriod[periodOf(s, end)] += int(vals[0])
			}
			total := 0
			for p, c := range perPeriod {
				total += c
				_ = p
			}
			wk := total - 3
			if wk < 0 {
				fails = append(fails, fmt.Sprintf("scan %d: key %s shows %d points, fewer than the preload", sc, rw.name, total))
				structural = true
				continue
			}
			w[k] = wk
			for p := 0; p < 3; p++ {
				want := 1 + (wk+2-p)/3
				if perPeriod[p] != want {
					fails = append(fails, fmt.Sprintf("scan %d: key %s shows %d writer points but period %d holds %d points (a prefix of its stream would give %d)", sc, rw.name, wk, p, perPeriod[p], want))
				}
			}
		}
		if len(rows) != nk {
			fails = append(fails, fmt.Sprintf("scan %d: %d rows for %d keys", sc, len(rows), nk))
			structural = true
		}
		n := 0
		for _, x := range w {
			n += x
		}
		for k := 0; k < nk; k++ {
			want := n / nk
			if k < n%nk {
				want++
			}
			if w[k] != want {
				fails = append(fails, fmt.Sprintf("scan %d: rows reflect different prefixes of the stream: writer points per key %v (sum %d) — key k%d should show %d", sc, w, n, k, want))
				break
			}
		}
		prefixes = append(prefixes, n)
	}
	atomic.StoreInt32(&stop, 1)
	wg.Wait()
	caseDesc["observedPrefixes"] = prefixes
	moved := len(prefixes) > 1 && prefixes[len(prefixes)-1] > prefixes[0]
	ctx.Res.Count(caseDesc, moved)
	ctx.Res.Hit("stress-case")
	if cold > 0 {
		ctx.Res.Hit("stress:big-copy")
	}
	if moved {
		ctx.Res.Hit("stress:writer-progressed-between-scans")
	}
	if len(fails) > 0 {
		if len(fails) > 6 {
			fails = fails[:6]
		}
		// known-finding matcher (only when the finding is listed): the rows are complete and none
		// shows less than the preload - they only disagree on HOW MUCH of the writer's stream they
		// reflect (some row delivered later reflects later inserts)
		finding := ""
		if knownIDs("C18")[findingShared] && !structural {
			finding = findingShared
		}
		ctx.Res.Disagree(hk.Disagreement{Kind: "property", Case: caseDesc, Impl: map[string]interface{}{"failures": fails},
			Detail: "C18: rows of a free-running scan do not reflect one prefix of the writer's stream", PropertyFails: true, Prop: "C18", Finding: finding, Index: idx + stressBase})
	}
	return nil
}
