package snapshot

import (
	"fmt"
	"sort"
	"time"

	"zvh/dbk"
	"zvh/hk"
)

// Several scans on one table, NO flush in between, inserts of four categories between them
// (in place into an existing key and period / new period of an existing key / new key / another
// table).  Every scan is checked against the table as of ITS OWN start.  That view must not be
// taken by another scan (a stale, reused memstore copy would be stale there as well), so it is
// computed from the points themselves: point i carries a = b = 2^i, hence every SUM field of
// (key, period) must equal the sum of 2^i over exactly the points processed for that key and
// period before the scan started, and `_points` their number ("a point processed before the
// query started is reflected in all fields of its row"; nothing else is).  The same schedule
// (scanStart + deliveries per scan) goes through the Lean model.

type multiOp struct {
	Kind   string // ingest other scan
	Cat    string // inplace newperiod newkey (ingest)
	Key    int
	Period int
	Sub    int
	Pick   int
}

type multiPlan struct {
	Ops []multiOp
}

func genMultiPlan(r *hk.Rng) *plan {
	s := &dbk.Schema{Table: "t", Stream: "inbound", Fields: ab(), Res: time.Second, WhereC: -1}
	fixSchema(s)
	mp := &multiPlan{}
	n := r.Range(2, 5)
	for i := 0; i < n; i++ {
		mp.Ops = append(mp.Ops, multiOp{Kind: "ingest", Cat: "newkey", Key: r.Intn(3), Period: r.Range(0, 2), Sub: r.Range(1, 900)})
	}
	ns := r.Range(2, 4)
	for sc := 0; sc < ns; sc++ {
		mp.Ops = append(mp.Ops, multiOp{Kind: "scan"})
		if sc == ns-1 {
			break
		}
		// between two scans: in half of the gaps only in-place inserts (the shape a reused
		// copy survives), otherwise a mix
		m := r.Range(1, 3)
		onlyInPlace := r.Chance(1, 2)
		for x := 0; x < m; x++ {
			o := multiOp{Kind: "ingest", Cat: "inplace", Sub: r.Range(1, 900), Pick: r.Intn(1000)}
			if !onlyInPlace {
				switch r.Intn(5) {
				case 0:
					o.Cat = "newperiod"
				case 1:
					o.Cat = "newkey"
				case 2:
					o = multiOp{Kind: "other", Sub: r.Range(1, 900)}
				}
			}
			mp.Ops = append(mp.Ops, o)
		}
	}
	return &plan{S: s, Gates: map[int][]opT{}, Multi: mp}
}

func handMadeMulti() *plan {
	s := &dbk.Schema{Table: "t", Stream: "inbound", Fields: ab(), Res: time.Second, WhereC: -1}
	fixSchema(s)
	return &plan{S: s, Gates: map[int][]opT{}, Multi: &multiPlan{Ops: []multiOp{
		{Kind: "ingest", Cat: "newkey", Key: 0, Period: 0, Sub: 500},
		{Kind: "ingest", Cat: "newkey", Key: 1, Period: 0, Sub: 500},
		{Kind: "scan"},
		{Kind: "ingest", Cat: "inplace", Pick: 0, Sub: 600},
		{Kind: "ingest", Cat: "inplace", Pick: 1, Sub: 700},
		{Kind: "scan"},
		{Kind: "other", Sub: 100},
		{Kind: "scan"},
	}}, Note: "several scans, no flush: a scan, two points accumulated into EXISTING periods of EXISTING keys (in place, no byte added), another scan: it must reflect them (a memstore copy reused until a structural change does not)"}
}

type cellKey struct {
	key    string
	period int
}

func multiCase(ctx *hk.RunCtx, r *hk.Rng, idx uint64, pl *plan) (retry bool, err error) {
	s := pl.S
	db, err := dbk.Open(dbk.Opts{})
	if err != nil {
		return false, err
	}
	defer closeDB(ctx, db)
	if err := db.CreateTable(s); err != nil {
		ctx.Res.Hit("create-table-error")
		return false, nil
	}
	other := &dbk.Schema{Table: "u", Stream: "inbound_u", Fields: ab(), Res: time.Second, WhereC: -1}
	fixSchema(other)
	if err := db.CreateTable(other); err != nil {
		ctx.Res.Hit("create-table-error")
		return false, nil
	}
	rn := &runner{ctx: ctx, r: r, idx: idx, pl: pl, db: db, all: s.AllFields(), cats: map[string]int{}}

	spec := map[cellKey][]int{} // (key, period) -> ids of the points processed so far
	var keys []string           // existing keys, in order of creation
	npoints := 0
	var fails []string
	nscan := 0
	inPlaceSinceScan, sawInPlaceGap := false, false
	cells := func() []cellKey {
		var cs []cellKey
		for c := range spec {
			cs = append(cs, c)
		}
		sort.Slice(cs, func(i, j int) bool {
			if cs[i].key != cs[j].key {
				return cs[i].key < cs[j].key
			}
			return cs[i].period < cs[j].period
		})
		return cs
	}
	for _, o := range pl.Multi.Ops {
		switch o.Kind {
		case "other":
			p := dbk.Point{TS: tsOf(s, 0, o.Sub), Dims: keyDims("k0"), Vals: map[string]interface{}{"a": float64(1), "b": float64(1)}}
			if err := db.Insert(other.Stream, p); err != nil {
				ctx.Res.Hit("insert-error")
			}
			ctx.Res.Hit("multi:other-table")
		case "ingest":
			var name string
			var period int
			cs := cells()
			cat := o.Cat
			if (cat == "inplace" || cat == "newperiod") && len(cs) == 0 {
				cat = "newkey"
			}
			switch cat {
			case "inplace":
				c := cs[o.Pick%len(cs)]
				name, period = c.key, c.period
			case "newperiod":
				c := cs[o.Pick%len(cs)]
				name = c.key
				for period = 3; len(spec[cellKey{name, period}]) > 0; period++ {
				}
			default:
				if nscan == 0 {
					name, period = fmt.Sprintf("k%d", o.Key), o.Period
				} else {
					name, period = fmt.Sprintf("m%d", len(keys)), o.Pick%3
				}
			}
			if len(spec[cellKey{name, period}]) > 0 {
				cat = "inplace"
				if nscan > 0 {
					inPlaceSinceScan = true
				}
			}
			v := float64(uint64(1) << uint(npoints))
			if err := rn.ingest(name, tsOf(s, period, o.Sub), map[string]interface{}{"a": v, "b": v}); err != nil {
				ctx.Res.Hit("insert-error")
				continue
			}
			known := false
			for _, k := range keys {
				known = known || k == name
			}
			if !known {
				keys = append(keys, name)
			}
			spec[cellKey{name, period}] = append(spec[cellKey{name, period}], npoints)
			npoints++
			ctx.Res.Hit("multi:" + cat)
		case "scan":
			if !db.Quiesce(waitLimit) {
				return true, nil
			}
			rows, err := db.Scan(s.Table, nil, true)
			if err != nil {
				ctx.Res.Note("case %d: scan %d failed: %v", idx, nscan, err)
				return true, nil
			}
			rn.events = append(rn.events, map[string]interface{}{"ev": "scanStart"})
			rn.implOut = append(rn.implOut, nil)
			got := map[string]string{}
			for _, row := range rows {
				name, _ := row.Key["d"].(string)
				rn.events = append(rn.events, map[string]interface{}{"ev": "deliver", "sid": nscan, "key": dbk.KeyJSON(keyDims(name))})
				rn.implOut = append(rn.implOut, colsJSON(rn.all, row.Cols))
				for k, v := range semRow(rn.all, row.Cols, s.Res) {
					got[name+"|"+k] = v
				}
			}
			want := map[string]string{}
			for c, ids := range spec {
				sum := uint64(0)
				for _, i := range ids {
					sum += uint64(1) << uint(i)
				}
				end := dbk.Base.Add(time.Duration(c.period+1) * s.Res).UnixNano()
				want[fmt.Sprintf("%s|0|%d", c.key, end)] = fmt.Sprintf(`[{"a":"%d"}]`, len(ids))
				want[fmt.Sprintf("%s|1|%d", c.key, end)] = fmt.Sprintf(`[{"a":"%d"}]`, sum)
				want[fmt.Sprintf("%s|2|%d", c.key, end)] = fmt.Sprintf(`[{"a":"%d"}]`, sum)
			}
			if d := diffSem(got, want); d != "" {
				fails = append(fails, fmt.Sprintf("scan %d (started after %d points were processed): key|%s", nscan, npoints, d))
			}
			if inPlaceSinceScan {
				sawInPlaceGap = true
			}
			inPlaceSinceScan = false
			nscan++
		}
	}
	req := rn.request()
	req["multi"] = true
	ctx.Res.Count(req, sawInPlaceGap)
	ctx.Res.TracesValidated++
	ctx.Res.Hit(fmt.Sprintf("multi-plan:scans=%d", nscan))
	if len(fails) > 0 {
		if len(fails) > 6 {
			fails = fails[:6]
		}
		ctx.Res.Disagree(hk.Disagreement{Kind: "property", Case: req, Impl: map[string]interface{}{"failures": fails, "observed": rn.implOut},
			Detail: "C18: a scan does not show exactly the points processed before it started (delivered vs the fold over the points; pre-scan view = the right-hand side)", PropertyFails: true, Prop: "C18", Index: idx})
	}
	i, mr, err := rn.compareModel(req)
	if err != nil {
		return false, err
	}
	if i >= 0 {
		ctx.Res.Disagree(hk.Disagreement{Kind: "model-vs-impl", Case: req, Impl: map[string]interface{}{"event": i, "row": rn.implOut[i]}, Model: mr,
			Detail: fmt.Sprintf("a %v event differs (several scans)", rn.events[i].(map[string]interface{})["ev"]), Index: idx})
	}
	return false, nil
}
