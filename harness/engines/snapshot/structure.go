package snapshot

import (
	"fmt"
	"go/ast"
	"go/parser"
	"go/token"
	"os"
	"path/filepath"
	"sort"
)

// The model treats `scanStart` (copy of the memstore + the file store of that instant), one
// whole insert and the swap at the end of a flush as ATOMIC with respect to each other.  In the
// code that is what rowStore.mx provides; interleavings below the hooks cannot be forced, so
// the lock discipline itself is read from the source (statement positions inside the three
// functions, not a control-flow analysis):
//   rowStore.iterate        `fs := rs.fileStore` and `rs.memStore.copy()` inside ONE RLock..RUnlock
//   rowStore.processInserts `ms.tree.Update(` inside Lock..Unlock
//   rowStore.doProcessFlush `rs.fileStore = …` and `rs.memStore = …` inside ONE Lock..Unlock
// A deviation is reported as a broken tie (kind "structure"), not as a verdict on the property.

type mark struct {
	pos  token.Pos
	what string
}

func repoDir() string {
	if d := os.Getenv("ZENO_REPO"); d != "" {
		return d
	}
	return "/repo"
}

func sel(e ast.Expr) string {
	switch t := e.(type) {
	case *ast.Ident:
		return t.Name
	case *ast.SelectorExpr:
		return sel(t.X) + "." + t.Sel.Name
	}
	return "?"
}

func marksOf(fn *ast.FuncDecl) []mark {
	var ms []mark
	ast.Inspect(fn.Body, func(n ast.Node) bool {
		switch t := n.(type) {
		case *ast.CallExpr:
			switch sel(t.Fun) {
			case "rs.mx.RLock", "rs.mx.Lock":
				ms = append(ms, mark{t.Pos(), "acquire"})
			case "rs.mx.RUnlock", "rs.mx.Unlock":
				ms = append(ms, mark{t.Pos(), "release"})
			case "ms.tree.Update":
				ms = append(ms, mark{t.Pos(), "update"})
			default:
				// the memstore copy, whatever the receiver expression is called
				if se, ok := t.Fun.(*ast.SelectorExpr); ok && se.Sel.Name == "copy" && len(t.Args) == 0 {
					ms = append(ms, mark{t.Pos(), "copy"})
				}
			}
		case *ast.AssignStmt:
			for _, l := range t.Lhs {
				switch sel(l) {
				case "rs.fileStore":
					ms = append(ms, mark{t.Pos(), "set-file"})
				case "rs.memStore":
					ms = append(ms, mark{t.Pos(), "set-mem"})
				}
			}
			for _, r := range t.Rhs {
				if sel(r) == "rs.fileStore" {
					ms = append(ms, mark{t.Pos(), "read-file"})
				}
			}
		}
		return true
	})
	sort.Slice(ms, func(i, j int) bool { return ms[i].pos < ms[j].pos })
	return ms
}

// section returns the index of the critical section (count of acquires so far) a mark lies
// in, or -1 when the last lock operation before it is a release (or there is none).
func section(ms []mark, what string) []int {
	var out []int
	sec, inside := 0, false
	for _, m := range ms {
		switch m.what {
		case "acquire":
			sec++
			inside = true
		case "release":
			inside = false
		default:
			if m.what == what {
				if inside {
					out = append(out, sec)
				} else {
					out = append(out, -1)
				}
			}
		}
	}
	return out
}

func lockDiscipline() (problems []string, err error) {
	path := filepath.Join(repoDir(), "row_store.go")
	fset := token.NewFileSet()
	f, err := parser.ParseFile(fset, path, nil, 0)
	if err != nil {
		return nil, err
	}
	fns := map[string]*ast.FuncDecl{}
	for _, d := range f.Decls {
		if fn, ok := d.(*ast.FuncDecl); ok && fn.Recv != nil && fn.Body != nil && len(fn.Recv.List) == 1 {
			if st, ok := fn.Recv.List[0].Type.(*ast.StarExpr); ok && sel(st.X) == "rowStore" {
				fns[fn.Name.Name] = fn
			}
		}
	}
	need := func(name string) ([]mark, bool) {
		fn := fns[name]
		if fn == nil {
			problems = append(problems, fmt.Sprintf("row_store.go: method rowStore.%s not found", name))
			return nil, false
		}
		return marksOf(fn), true
	}
	one := func(fn string, ms []mark, what string) int {
		s := section(ms, what)
		if len(s) == 0 {
			problems = append(problems, fmt.Sprintf("%s: no `%s` found", fn, what))
			return -2
		}
		for _, x := range s {
			if x < 0 {
				problems = append(problems, fmt.Sprintf("%s: `%s` happens outside rs.mx", fn, what))
				return -1
			}
		}
		return s[0]
	}
	if ms, ok := need("iterate"); ok {
		a := one("rowStore.iterate", ms, "copy")
		b := one("rowStore.iterate", ms, "read-file")
		if a >= 0 && b >= 0 && a != b {
			problems = append(problems, "rowStore.iterate: the file store and the memstore copy are taken in different critical sections")
		}
	}
	if ms, ok := need("processInserts"); ok {
		one("rowStore.processInserts", ms, "update")
	}
	if ms, ok := need("doProcessFlush"); ok {
		a := one("rowStore.doProcessFlush", ms, "set-file")
		b := one("rowStore.doProcessFlush", ms, "set-mem")
		if a >= 0 && b >= 0 && a != b {
			problems = append(problems, "rowStore.doProcessFlush: file store and memstore are swapped in different critical sections")
		}
	}
	return problems, nil
}
