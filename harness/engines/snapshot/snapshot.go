// Package snapshot is the correspondence engine for C18 ("a query observes the table as of a
// single instant").  Deterministic schedules against an embedded zenodb: preload points (some
// flushed, some in the memstore, several keys, multi-field tables), take the complete
// pre-scan view, start a memstore-inclusive scan whose consumer is held at chosen points
// (right after the `scan.start` hook = after the memstore copy was taken, and after any
// delivered row), meanwhile insert further points (same key & period as a row not yet
// delivered / same key, new period / new key / key already delivered), optionally force a
// flush, wait for quiescence, release the scan.
//
//   - property oracle (implementation only): every row the held scan delivers equals the row of
//     the pre-scan view, and exactly the pre-scan keys are delivered;
//   - model: the same schedule (as observed: deliveries in the order they happened) is run
//     through the Lean model (driver engine "snapshot", copy mode "deep") and every delivery,
//     the pre-scan view and the final view are compared sequence by sequence.
//
// Modes: "" (= "held", the name corpus files use) raw scans through VerifIterate and SQL pass-through / materialising queries
// through db.Query(...).Iterate; "stress" = a free-running scan next to a writer goroutine
// (true parallelism, sampled): rows must be mutually consistent with ONE prefix of the
// writer's stream.
package snapshot

import (
	"context"
	"encoding/json"
	"fmt"
	"os"
	"reflect"
	"sort"
	"sync"
	"sync/atomic"
	"time"

	"github.com/getlantern/bytemap"
	"github.com/getlantern/zenodb"
	"github.com/getlantern/zenodb/core"
	"github.com/getlantern/zenodb/encoding"

	"zvh/dbk"
	"zvh/gen"
	"zvh/hk"
)

type Engine struct{}

// findingShared is the id a known-finding entry for D9 would carry (only consulted when it is
// listed in $ZV_KNOWN; with the fix in place it never matches anything).
const findingShared = "C18-memstore-copy-shares-storage"

// handMadeBase: case indexes from here on address the hand-made schedules (corpus).
const handMadeBase = 1 << 20

// stressBase: a stress case reports itself under index stressBase+i, and any run (whatever its
// mode) that is asked for an index from here on runs stress case i — so a replay file, which
// only carries (seed, index), reproduces the right kind of case.
const stressBase = 1 << 21

const waitLimit = 30 * time.Second

func knownIDs(prop string) map[string]bool {
	out := map[string]bool{}
	b, err := os.ReadFile(os.Getenv("ZV_KNOWN"))
	if err != nil {
		return out
	}
	var kf struct {
		Known []struct {
			ID       string `json:"id"`
			Property string `json:"property"`
		} `json:"known"`
	}
	if json.Unmarshal(b, &kf) != nil {
		return out
	}
	for _, k := range kf.Known {
		if k.Property == prop || prop == "" {
			out[k.ID] = true
		}
	}
	return out
}

// ---------------------------------------------------------------- schedules

// opT is an operation template; in-scan templates are resolved against what has been
// delivered so far when their gate is reached.
type opT struct {
	Kind   string // ingest flush
	Cat    string // preload: "" ; in-scan: ud-same ud-new new-key delivered
	Key    int    // preload: key number
	Period int    // preload: period number (may be negative)
	Sub    int    // offset inside the period, ms
	Pick   int    // in-scan: choice index (key / period), reduced modulo what is available
	Vals   map[string]interface{}
}

type plan struct {
	S     *dbk.Schema
	Pre   []opT
	Gates map[int][]opT // rows delivered so far -> operations performed while the scan is held there
	SQL   string        // "" = raw scan through VerifIterate
	// FlushHeld: instead of holding a scan, hold a FLUSH (at the flush.tmpwritten hook: the new
	// file is written, nothing is swapped in yet) and run a complete scan meanwhile
	FlushHeld bool
	// Env: the scan's ENVIRONMENT changes while it is held (after the first row: the truncation
	// bound of a scan is computed when fileStore.iterate begins): the database clock is moved
	// past retention boundaries (a much later point for another key, VerifAdvanceClock), the
	// table is altered, flushes are forced; every key has data in the file AND in the memstore,
	// and the file sequences end between (clock at scan start - retention) and (new clock -
	// retention).  Retention is 10 periods.
	Env bool
	// Multi: several complete scans with inserts (and no flush) between them, see multiscan.go
	Multi *multiPlan
	Note  string
}

func genVals(r *hk.Rng) map[string]interface{} {
	p := dbk.GenPointAt(r, dbk.Base, false)
	return p.Vals
}

func sumField(name, arg string) dbk.FieldDef {
	return dbk.FieldDef{Name: name, Node: &gen.Node{Kind: "agg", Name: "SUM", Kids: []*gen.Node{{Kind: "field", Name: arg}}}}
}

func fixSchema(s *dbk.Schema) {
	s.GroupBy = nil
	s.WhereC = -1
	s.Retention = s.Res * 1000000 // nothing expires: the truncation bound is not part of the model
}

var sqlForms = []string{
	"SELECT * FROM t",                     // pass-through: flatten streams the table rows
	"SELECT * FROM t WHERE d <> 'k1'",     // pass-through with a row filter
	"SELECT _points FROM t GROUP BY d",    // group: materialises before delivering
	"SELECT * FROM t ORDER BY _time DESC", // sort: materialises before delivering
}

func genPlan(r *hk.Rng) *plan {
	if r.Chance(1, 5) {
		return genMultiPlan(r)
	}
	pl := &plan{S: dbk.GenSchema(r, "t"), Gates: map[int][]opT{}}
	fixSchema(pl.S)
	if r.Chance(1, 4) {
		pl.SQL = hk.Pick(r, sqlForms)
	} else if r.Chance(1, 6) {
		pl.FlushHeld = true
	} else if r.Chance(1, 4) {
		return genEnvPlan(r, pl)
	}
	nk := r.Range(2, 6)
	n := r.Range(3, 14)
	for i := 0; i < n; i++ {
		if i > 0 && r.Chance(1, 6) {
			pl.Pre = append(pl.Pre, opT{Kind: "flush"})
			continue
		}
		pl.Pre = append(pl.Pre, opT{Kind: "ingest", Key: r.Intn(nk), Period: r.Range(0, 3), Sub: r.Range(1, 900), Vals: genVals(r)})
	}
	// gates: 1-3 holding points among "after j rows", j = 0 .. nk (0 = right after the copy)
	ng := r.Range(1, 3)
	for g := 0; g < ng; g++ {
		j := r.Intn(nk + 1)
		if r.Chance(1, 3) {
			j = 0
		}
		m := r.Range(1, 3)
		for x := 0; x < m; x++ {
			c := r.Intn(10)
			o := opT{Kind: "ingest", Sub: r.Range(1, 900), Pick: r.Intn(1000), Vals: genVals(r)}
			switch {
			case c < 4:
				o.Cat = "ud-same"
			case c < 6:
				o.Cat = "ud-new"
			case c < 7:
				o.Cat = "new-key"
			case c < 8:
				o.Cat = "delivered"
			default:
				o = opT{Kind: "flush"}
			}
			pl.Gates[j] = append(pl.Gates[j], o)
		}
	}
	return pl
}

func genEnvPlan(r *hk.Rng, pl *plan) *plan {
	pl.Env = true
	pl.S.Retention = 10 * pl.S.Res
	nk := r.Range(3, 5)
	for k := 0; k < nk; k++ {
		pl.Pre = append(pl.Pre, opT{Kind: "ingest", Key: k, Period: r.Range(0, 2), Sub: r.Range(1, 900), Vals: genVals(r)})
	}
	if r.Chance(1, 3) {
		pl.Pre = append(pl.Pre, opT{Kind: "ingest", Key: nk, Period: 1, Sub: 5, Vals: genVals(r)}) // a file-only key
	}
	pl.Pre = append(pl.Pre, opT{Kind: "flush"})
	for k := 0; k < nk; k++ {
		pl.Pre = append(pl.Pre, opT{Kind: "ingest", Key: k, Period: r.Range(7, 8), Sub: r.Range(1, 900), Vals: genVals(r)})
	}
	if r.Chance(1, 3) {
		pl.Pre = append(pl.Pre, opT{Kind: "ingest", Key: nk + 1, Period: 8, Sub: 5, Vals: genVals(r)}) // a memstore-only key
	}
	// first environment change after row j >= 1, more later
	j := r.Range(1, nk-1)
	far := opT{Kind: "ingest", Cat: "far-key", Period: r.Range(19, 30), Sub: r.Range(1, 900), Vals: genVals(r)}
	switch r.Intn(4) {
	case 0:
		pl.Gates[j] = append(pl.Gates[j], opT{Kind: "advance", Period: r.Range(19, 30)})
	case 1:
		pl.Gates[j] = append(pl.Gates[j], opT{Kind: "alter"}, far)
	default:
		pl.Gates[j] = append(pl.Gates[j], far)
	}
	for x := r.Intn(3); x > 0; x-- {
		g := r.Range(j, nk)
		switch r.Intn(5) {
		case 0:
			pl.Gates[g] = append(pl.Gates[g], opT{Kind: "flush"})
		case 1:
			pl.Gates[g] = append(pl.Gates[g], opT{Kind: "alter"})
		case 2:
			pl.Gates[g] = append(pl.Gates[g], opT{Kind: "advance", Period: r.Range(31, 40)})
		case 3:
			pl.Gates[g] = append(pl.Gates[g], opT{Kind: "ingest", Cat: "ud-same", Sub: r.Range(1, 900), Pick: r.Intn(1000), Vals: genVals(r)})
		default:
			pl.Gates[g] = append(pl.Gates[g], opT{Kind: "ingest", Cat: "far-key", Period: r.Range(31, 40), Sub: r.Range(1, 900), Vals: genVals(r)})
		}
	}
	return pl
}

func ab() []dbk.FieldDef { return []dbk.FieldDef{sumField("f0", "a"), sumField("f1", "b")} }

func v(a, b float64) map[string]interface{} { return map[string]interface{}{"a": a, "b": b} }

// handMade returns the i-th hand-made schedule (the corpus refers to them by index).
func handMade(i int) *plan {
	s := &dbk.Schema{Table: "t", Stream: "inbound", Fields: ab(), Res: time.Second, WhereC: -1}
	fixSchema(s)
	pl := &plan{S: s, Gates: map[int][]opT{}}
	in := func(k, p int, a, b float64) opT {
		return opT{Kind: "ingest", Key: k, Period: p, Sub: 500, Vals: v(a, b)}
	}
	switch i {
	case 0:
		pl.Note = "D9 witness, in place: one key in the memstore, insert into the same period right after the copy was taken"
		pl.Pre = []opT{in(0, 0, 1, 2)}
		pl.Gates[0] = []opT{{Kind: "ingest", Cat: "ud-same", Sub: 600, Vals: v(4, 8)}}
	case 1:
		pl.Note = "D9 witness, re-allocated: insert into a later period of the same key (Update returns a new sequence, doUpdate stores it into the shared data slice)"
		pl.Pre = []opT{in(0, 0, 1, 2)}
		pl.Gates[0] = []opT{{Kind: "ingest", Cat: "ud-new", Pick: 0, Sub: 600, Vals: v(4, 8)}}
	case 2:
		pl.Note = "two keys, one also in the file; after the first row: insert into the key not yet delivered, then flush"
		pl.Pre = []opT{in(0, 0, 1, 2), in(1, 0, 16, 32), {Kind: "flush"}, in(0, 1, 64, 128), in(1, 0, 256, 512)}
		pl.Gates[1] = []opT{{Kind: "ingest", Cat: "ud-same", Sub: 700, Vals: v(1024, 2048)}, {Kind: "flush"}}
	case 3:
		pl.Note = "new key and already delivered key inserted during the scan"
		pl.Pre = []opT{in(0, 0, 1, 2), in(1, 0, 16, 32), in(2, 1, 64, 128)}
		pl.Gates[1] = []opT{{Kind: "ingest", Cat: "new-key", Sub: 100, Vals: v(4, 4)}, {Kind: "ingest", Cat: "delivered", Sub: 100, Vals: v(8, 8)}}
		pl.Gates[2] = []opT{{Kind: "ingest", Cat: "ud-same", Sub: 100, Vals: v(1024, 1024)}}
	case 4:
		pl.Note = "D9 witness through SQL: SELECT * (flatten reads the row's sequences lazily, period by period)"
		pl.SQL = "SELECT * FROM t"
		pl.Pre = []opT{in(0, 0, 1, 2), in(0, 1, 16, 32), in(1, 0, 64, 128)}
		pl.Gates[1] = []opT{{Kind: "ingest", Cat: "ud-same", Pick: 1, Sub: 600, Vals: v(4, 8)}}
	case 5:
		pl.Note = "flush between the copy and the first row, inserts afterwards land in the new memstore"
		pl.Pre = []opT{in(0, 0, 1, 2), in(1, 0, 16, 32)}
		pl.Gates[0] = []opT{{Kind: "flush"}, {Kind: "ingest", Cat: "ud-same", Sub: 600, Vals: v(4, 8)}, {Kind: "flush"}}
	case 6:
		pl.Note = "a complete scan while a flush is held between writing the new file and swapping it in"
		pl.FlushHeld = true
		pl.Pre = []opT{in(0, 0, 1, 2), in(1, 0, 16, 32), {Kind: "flush"}, in(0, 1, 64, 128), in(2, 0, 256, 512)}
	case 9:
		return handMadeMulti()
	case 7:
		pl.Note = "environment: after the first row a much later point for ANOTHER key moves the clock past the retention boundary of the file data of the keys not yet delivered (a per-row truncateBefore drops it)"
		pl.Env = true
		s.Retention = 10 * s.Res
		pl.Pre = []opT{in(0, 0, 1, 2), in(1, 1, 16, 32), in(2, 0, 64, 128), {Kind: "flush"}, in(0, 8, 4, 8), in(1, 8, 256, 512), in(2, 7, 1024, 2048)}
		pl.Gates[1] = []opT{{Kind: "ingest", Cat: "far-key", Period: 25, Sub: 500, Vals: v(4096, 8192)}}
	case 8:
		pl.Note = "environment: ALTER TABLE (a field is added) and VerifAdvanceClock while the scan is held after its first row"
		pl.Env = true
		s.Retention = 10 * s.Res
		pl.Pre = []opT{in(0, 0, 1, 2), in(1, 1, 16, 32), {Kind: "flush"}, in(0, 8, 4, 8), in(1, 8, 256, 512)}
		pl.Gates[1] = []opT{{Kind: "alter"}, {Kind: "advance", Period: 25}}
	default:
		return nil
	}
	return pl
}

// ---------------------------------------------------------------- observation helpers

func keyDims(k string) map[string]interface{} { return map[string]interface{}{"d": k} }

func tsOf(s *dbk.Schema, period, subMs int) time.Time {
	return dbk.Base.Add(time.Duration(period) * s.Res).Add(time.Duration(subMs) * s.Res / 1000)
}

// periodOf returns the period number whose end is the given period end (unix ns).
func periodOf(s *dbk.Schema, end int64) int {
	return int((end-dbk.Base.UnixNano())/int64(s.Res)) - 1
}

func isUnset(cells []interface{}) bool {
	for _, c := range cells {
		m, ok := c.(map[string]interface{})
		if !ok {
			continue
		}
		for _, x := range m {
			if x != nil {
				return false
			}
		}
	}
	return true
}

// semRow is the semantic content of one row: "field|periodEnd" -> state, set states only.
func semRow(fields []dbk.FieldDef, cols []encoding.Sequence, res time.Duration) map[string]string {
	out := map[string]string{}
	for i, f := range fields {
		if i >= len(cols) || len(cols[i]) == 0 {
			continue
		}
		s := cols[i]
		w := f.Node.Build().EncodedWidth()
		for p := 0; p < s.NumPeriods(w); p++ {
			end := s.UntilInt() - int64(p)*int64(res)
			cells, _ := f.Node.DecodeCells(s[8+p*w : 8+(p+1)*w])
			if isUnset(cells) {
				continue
			}
			b, _ := json.Marshal(cells)
			out[fmt.Sprintf("%d|%d", i, end)] = string(b)
		}
	}
	return out
}

func diffSem(a, b map[string]string) string {
	ks := []string{}
	for k := range a {
		ks = append(ks, k)
	}
	for k := range b {
		if _, ok := a[k]; !ok {
			ks = append(ks, k)
		}
	}
	sort.Strings(ks)
	for _, k := range ks {
		x, okx := a[k]
		y, oky := b[k]
		if !okx {
			x = "<absent>"
		}
		if !oky {
			y = "<absent>"
		}
		if x != y {
			return fmt.Sprintf("field|periodEnd %s: delivered %s, pre-scan view %s", k, x, y)
		}
	}
	return ""
}

func colsJSON(fields []dbk.FieldDef, cols []encoding.Sequence) []interface{} {
	out := make([]interface{}, len(fields))
	for i, f := range fields {
		if i < len(cols) {
			out[i] = dbk.DecodeSeq(f.Node, f.Node.Build().EncodedWidth(), cols[i])
		}
	}
	return out
}

func sameJSON(a interface{}, b interface{}) bool {
	ab, _ := json.Marshal(a)
	bb, _ := json.Marshal(b)
	var x, y interface{}
	json.Unmarshal(ab, &x)
	json.Unmarshal(bb, &y)
	return reflect.DeepEqual(x, y)
}

type obsRow struct {
	KS   string // canonical key string
	Name string // value of dim d
	Cols []encoding.Sequence
}

type flatObs struct {
	KS     string
	TS     int64
	Values []float64
}

func flatKey(f flatObs) string { return fmt.Sprintf("%s@%d", f.KS, f.TS) }

// ---------------------------------------------------------------- the held scan

var (
	sinkOnce sync.Once
	armed    atomic.Value // func(event, table string)
)

func installSink() {
	sinkOnce.Do(func() {
		zenodb.VerifSetSink(func(name string, table string, args []interface{}) {
			if name != "scan.start" && name != "flush.tmpwritten" {
				return
			}
			if f, ok := armed.Load().(func(string, string)); ok && f != nil {
				f(name, table)
			}
		})
	})
}

type pauseMsg struct {
	n int // rows delivered so far (0 = right after scan.start)
}

type held struct {
	pause    chan pauseMsg
	resume   chan bool
	abort    chan struct{}
	done     chan error
	mu       sync.Mutex
	rows     []obsRow
	flats    []flatObs
	sawStart int32
}

func (h *held) wait(n int) bool {
	select {
	case h.pause <- pauseMsg{n: n}:
	case <-h.abort:
		return false
	}
	select {
	case ok := <-h.resume:
		return ok
	case <-h.abort:
		return false
	}
}

// closeDB closes and removes the database.  DB.Close waits for every table's WAL-processing
// task, and such a task can sit forever in `rs.inserts <- insert` once the row store's
// processInserts loop has left on `stop` (observed: shutdown with inserts still in flight never
// returns).  So: let the table drain first, and never wait for Close longer than a minute.
func closeDB(ctx *hk.RunCtx, db *dbk.DB) {
	db.Quiesce(waitLimit)
	done := make(chan struct{})
	go func() { db.CloseAndRemove(); close(done) }()
	select {
	case <-done:
	case <-time.After(2 * waitLimit):
		ctx.Res.Hit("db-close-did-not-return")
		ctx.Res.Note("DB.Close did not return within %v (a WAL-processing task blocked handing an insert to a row store that had already stopped); the database directory %s is left behind", 2*waitLimit, db.Dir)
	}
}

// ---------------------------------------------------------------- one case

type runner struct {
	ctx   *hk.RunCtx
	r     *hk.Rng
	idx   uint64
	pl    *plan
	db    *dbk.DB
	all   []dbk.FieldDef
	known map[string]bool

	events  []interface{} // the model's schedule, as observed
	implOut []interface{} // per event: nil, or the row JSON to compare with the model
	newKeys int
	farKeys int
	altered bool
	cats    map[string]int
}

func (rn *runner) ingest(name string, ts time.Time, vals map[string]interface{}) error {
	p := dbk.Point{TS: ts, Dims: keyDims(name), Vals: vals}
	if err := rn.db.Insert(rn.pl.S.Stream, p); err != nil {
		return err
	}
	rn.events = append(rn.events, map[string]interface{}{"ev": "ingest", "p": p.ModelJSON(nil)})
	rn.implOut = append(rn.implOut, nil)
	return nil
}

func (rn *runner) flush() bool {
	if !rn.db.Quiesce(waitLimit) {
		return false
	}
	fc := rn.db.VerifFlushCount(rn.pl.S.Table)
	done := make(chan struct{})
	go func() { rn.db.VerifForceFlush(rn.pl.S.Table); close(done) }()
	select {
	case <-done:
	case <-time.After(waitLimit):
		return false
	}
	raw := fc%10 != 9
	rn.events = append(rn.events, map[string]interface{}{"ev": "flush", "raw": raw})
	rn.implOut = append(rn.implOut, nil)
	return true
}

// alter adds a field to the table (ALTER through ApplySchema) and waits until the table has it.
func (rn *runner) alter() bool {
	if rn.altered {
		return true
	}
	if !rn.db.Quiesce(waitLimit) {
		return false
	}
	s2 := *rn.pl.S
	s2.Fields = append(append([]dbk.FieldDef{}, rn.pl.S.Fields...), sumField("zx", "zz"))
	err := rn.db.DB.ApplySchema(zenodb.Schema{s2.Table: &zenodb.TableOpts{Name: s2.Table, RetentionPeriod: s2.Retention, SQL: s2.SQL(),
		MinFlushLatency: 10000 * time.Hour, MaxFlushLatency: 20000 * time.Hour}})
	if err != nil {
		rn.ctx.Res.Note("case %d: ALTER failed: %v", rn.idx, err)
		return false
	}
	for t0 := time.Now(); time.Since(t0) < waitLimit; time.Sleep(200 * time.Microsecond) {
		for _, f := range rn.db.VerifFields(s2.Table) {
			if f.Name == "zx" {
				rn.altered = true
				return rn.db.Quiesce(waitLimit)
			}
		}
	}
	return false
}

type preRow struct {
	name    string
	cols    []interface{}
	sem     map[string]string
	periods []int
}

func (rn *runner) fullView() (map[string]*preRow, []string, error) {
	rows, err := rn.db.Scan(rn.pl.S.Table, nil, true)
	if err != nil {
		return nil, nil, err
	}
	out := map[string]*preRow{}
	order := []string{}
	for _, r := range rows {
		ks := dbk.KeyString(r.Key)
		name, _ := r.Key["d"].(string)
		pr := &preRow{name: name, cols: colsJSON(rn.all, r.Cols), sem: semRow(rn.all, r.Cols, rn.pl.S.Res)}
		ps := map[int]bool{}
		for k := range pr.sem {
			var fi int
			var end int64
			fmt.Sscanf(k, "%d|%d", &fi, &end)
			ps[periodOf(rn.pl.S, end)] = true
		}
		for p := range ps {
			pr.periods = append(pr.periods, p)
		}
		sort.Ints(pr.periods)
		out[ks] = pr
		order = append(order, ks)
	}
	sort.Strings(order)
	return out, order, nil
}

func (rn *runner) viewEvents(view map[string]*preRow, order []string) {
	for _, ks := range order {
		rn.events = append(rn.events, map[string]interface{}{"ev": "view", "key": dbk.KeyJSON(keyDims(view[ks].name))})
		rn.implOut = append(rn.implOut, view[ks].cols)
	}
}

// resolve turns an in-scan template into a concrete insert, given what was delivered.
func (rn *runner) resolve(o opT, pre map[string]*preRow, order []string, delivered map[string]bool) (string, time.Time, string) {
	var ud, dl []string
	for _, ks := range order {
		if delivered[ks] {
			dl = append(dl, ks)
		} else {
			ud = append(ud, ks)
		}
	}
	cat := o.Cat
	if cat == "far-key" {
		rn.farKeys++
		return fmt.Sprintf("z%d", rn.farKeys), tsOf(rn.pl.S, o.Period, o.Sub), cat
	}
	if (cat == "ud-same" || cat == "ud-new") && len(ud) == 0 {
		cat = "delivered"
	}
	if cat == "delivered" && len(dl) == 0 {
		if len(ud) > 0 {
			cat = "ud-same"
		} else {
			cat = "new-key"
		}
	}
	switch cat {
	case "ud-same":
		pr := pre[ud[o.Pick%len(ud)]]
		p := 0
		if len(pr.periods) > 0 {
			p = pr.periods[(o.Pick/7)%len(pr.periods)]
		}
		return pr.name, tsOf(rn.pl.S, p, o.Sub), cat
	case "ud-new":
		pr := pre[ud[o.Pick%len(ud)]]
		has := map[int]bool{}
		for _, p := range pr.periods {
			has[p] = true
		}
		cands := []int{}
		for p := -2; p <= 6; p++ {
			if !has[p] {
				cands = append(cands, p)
			}
		}
		// Pick 0 = the period right after the newest one (prepend)
		p := cands[0]
		if o.Pick == 0 {
			mx := -3
			for _, q := range pr.periods {
				if q > mx {
					mx = q
				}
			}
			p = mx + 1
		} else {
			p = cands[(o.Pick/7)%len(cands)]
		}
		return pr.name, tsOf(rn.pl.S, p, o.Sub), cat
	case "delivered":
		pr := pre[dl[o.Pick%len(dl)]]
		return pr.name, tsOf(rn.pl.S, (o.Pick/7)%4, o.Sub), cat
	default:
		rn.newKeys++
		return fmt.Sprintf("n%d", rn.newKeys), tsOf(rn.pl.S, (o.Pick/7)%4, o.Sub), "new-key"
	}
}

func (Engine) Run(ctx *hk.RunCtx) error {
	ctx.Res.Rule = "generated (schema, preload of inserts/flushes, gates = operations performed while the memstore-inclusive scan is held after the copy / after row j); distinct by canonical model schedule; non-trivial = an insert into a key that existed at scan start lands between the copy and that key's delivery (or, stress mode, a writer ran during the whole scan)"
	installSink()
	known := knownIDs("C18")
	if ctx.Mode != "stress" && ctx.From == 0 {
		probs, err := lockDiscipline()
		if err != nil {
			ctx.Res.Note("lock discipline not checked: %v", err)
			ctx.Res.Hit("structure:unreadable")
		} else if len(probs) == 0 {
			ctx.Res.Hit("structure:lock-discipline-ok")
		}
		for _, p := range probs {
			ctx.Res.Disagree(hk.Disagreement{Kind: "structure", Case: map[string]interface{}{"engine": "snapshot", "check": "lock discipline of row_store.go"},
				Detail: "the atomicity the model assumes is not in the source: " + p})
		}
	}
	for i := 0; i < ctx.N; i++ {
		idx := uint64(ctx.From + i)
		r := hk.Derive(ctx.Seed, idx)
		var err error
		if idx >= stressBase {
			err = stressCase(ctx, hk.Derive(ctx.Seed, idx-stressBase), idx-stressBase)
		} else if ctx.Mode == "stress" {
			err = stressCase(ctx, r, idx)
		} else {
			var pl *plan
			if idx >= handMadeBase {
				pl = handMade(int(idx - handMadeBase))
				if pl == nil {
					ctx.Res.Note("no hand-made schedule %d", idx-handMadeBase)
					continue
				}
				ctx.Res.Hit("hand-made")
			} else {
				pl = genPlan(r)
			}
			// infrastructure trouble: retry once on a fresh directory, then inconclusive
			var retry bool
			run := oneCase
			if pl.Multi != nil {
				run = func(ctx *hk.RunCtx, r *hk.Rng, idx uint64, pl *plan, _ map[string]bool) (bool, error) {
					return multiCase(ctx, r, idx, pl)
				}
			}
			retry, err = run(ctx, r, idx, pl, known)
			if retry && err == nil {
				retry, err = run(ctx, hk.Derive(ctx.Seed, idx), idx, pl, known)
				if retry && err == nil {
					ctx.Res.Inconclusive++
				}
			}
		}
		if err != nil {
			return err
		}
	}
	return nil
}

func (rn *runner) request() map[string]interface{} {
	s := rn.pl.S
	req := map[string]interface{}{"engine": "snapshot", "op": "run", "mode": "deep", "cfg": s.CfgJSON(),
		"tb": fmt.Sprint(dbk.Base.Add(-s.Retention).UnixNano()), "events": rn.events, "sql": rn.pl.SQL}
	if rn.pl.Note != "" {
		req["note"] = rn.pl.Note
	}
	if rn.pl.FlushHeld {
		req["flushHeld"] = true
	}
	if rn.pl.Env {
		req["clock"] = true
	}
	return req
}

// compareModel runs the schedule through the model and returns the first event whose output
// differs from the implementation's (-1: none) together with the model's output there.
func (rn *runner) compareModel(req map[string]interface{}) (int, interface{}, error) {
	out, err := rn.ctx.Model.Call(req)
	if err != nil {
		return -1, nil, err
	}
	var mo struct {
		Outs []struct {
			Row json.RawMessage `json:"row"`
		} `json:"outs"`
	}
	if err := json.Unmarshal(out, &mo); err != nil {
		return -1, nil, err
	}
	for i, io := range rn.implOut {
		if io == nil || i >= len(mo.Outs) {
			continue
		}
		var mr interface{}
		json.Unmarshal(mo.Outs[i].Row, &mr)
		if !sameJSON(io, mr) {
			return i, mr, nil
		}
	}
	return -1, nil, nil
}

// flushHeldCase: the flush is stopped at flush.tmpwritten (the processInserts goroutine sits in
// the hook: the new file is complete, neither file store nor memstore is swapped yet); a
// complete memstore-inclusive scan taken now must equal the view from before the flush, and
// so must the view after the flush was let go.
func flushHeldCase(ctx *hk.RunCtx, rn *runner, pre map[string]*preRow, order []string) (bool, error) {
	s := rn.pl.S
	db := rn.db
	holding := make(chan struct{})
	release := make(chan struct{})
	var once int32
	armed.Store(func(name, table string) {
		if name != "flush.tmpwritten" || table != s.Table || !atomic.CompareAndSwapInt32(&once, 0, 1) {
			return
		}
		close(holding)
		select {
		case <-release:
		case <-time.After(2 * waitLimit):
		}
	})
	defer armed.Store(func(string, string) {})
	fc := db.VerifFlushCount(s.Table)
	flushed := make(chan struct{})
	go func() { db.VerifForceFlush(s.Table); close(flushed) }()
	held := false
	select {
	case <-holding:
		held = true
		ctx.Res.Hit("flush-held")
	case <-flushed:
		ctx.Res.Hit("flush-held:memstore-empty") // nothing to flush: no hook
	case <-time.After(waitLimit):
		close(release)
		return true, nil
	}
	rn.events = append(rn.events, map[string]interface{}{"ev": "scanStart"})
	rn.implOut = append(rn.implOut, nil)
	rows, err := db.Scan(s.Table, nil, true)
	if held {
		close(release)
		select {
		case <-flushed:
		case <-time.After(waitLimit):
			return true, nil
		}
	}
	if err != nil {
		ctx.Res.Note("case %d: scan during held flush failed: %v", rn.idx, err)
		return true, nil
	}
	var fails []string
	seen := map[string]bool{}
	for i, r := range rows {
		ks := dbk.KeyString(r.Key)
		name, _ := r.Key["d"].(string)
		seen[ks] = true
		rn.events = append(rn.events, map[string]interface{}{"ev": "deliver", "sid": 0, "key": dbk.KeyJSON(keyDims(name))})
		rn.implOut = append(rn.implOut, colsJSON(rn.all, r.Cols))
		pr, ok := pre[ks]
		if !ok {
			fails = append(fails, fmt.Sprintf("row %d: key %s did not exist before the flush", i, ks))
			continue
		}
		if d := diffSem(semRow(rn.all, r.Cols, s.Res), pr.sem); d != "" {
			fails = append(fails, fmt.Sprintf("row %d (key %s) of a scan taken during the flush differs from the view before it: %s", i, ks, d))
		}
	}
	for _, ks := range order {
		if !seen[ks] {
			fails = append(fails, fmt.Sprintf("key %s is missing from a scan taken during the flush", ks))
		}
	}
	if held {
		rn.events = append(rn.events, map[string]interface{}{"ev": "flush", "raw": fc%10 != 9})
		rn.implOut = append(rn.implOut, nil)
	}
	final, forder, err := rn.fullView()
	if err != nil {
		return true, nil
	}
	rn.viewEvents(final, forder)
	for _, ks := range order {
		if fr, ok := final[ks]; !ok {
			fails = append(fails, fmt.Sprintf("key %s is gone after the flush", ks))
		} else if d := diffSem(fr.sem, pre[ks].sem); d != "" {
			fails = append(fails, fmt.Sprintf("key %s after the flush differs from the view before it: %s", ks, d))
		}
	}
	req := rn.request()
	ctx.Res.Count(req, held && len(order) > 0)
	ctx.Res.TracesValidated++
	if len(fails) > 0 {
		if len(fails) > 6 {
			fails = fails[:6]
		}
		ctx.Res.Disagree(hk.Disagreement{Kind: "property", Case: req, Impl: map[string]interface{}{"failures": fails, "observed": rn.implOut},
			Detail: "C18: a scan taken while a flush was in progress (or right after it) differs from the view before the flush", PropertyFails: true, Prop: "C18", Index: rn.idx})
	}
	i, mr, err := rn.compareModel(req)
	if err != nil {
		return false, err
	}
	if i >= 0 {
		ctx.Res.Disagree(hk.Disagreement{Kind: "model-vs-impl", Case: req, Impl: map[string]interface{}{"event": i, "row": rn.implOut[i]}, Model: mr,
			Detail: fmt.Sprintf("a %v event differs (flush held)", rn.events[i].(map[string]interface{})["ev"]), Index: rn.idx})
	}
	return false, nil
}

// oneCase runs one schedule; retry = infrastructure trouble (nothing reported).
func oneCase(ctx *hk.RunCtx, r *hk.Rng, idx uint64, pl *plan, known map[string]bool) (retry bool, err error) {
	s := pl.S
	if _, perr := dbk.ParseTable(s); perr != nil {
		ctx.Res.Hit("schema-unparsable")
		return false, nil
	}
	db, err := dbk.Open(dbk.Opts{})
	if err != nil {
		return false, err
	}
	defer closeDB(ctx, db)
	if err := db.CreateTable(s); err != nil {
		ctx.Res.Hit("create-table-error")
		return false, nil
	}
	if err := db.CheckFields(s); err != nil {
		ctx.Res.Hit("schema-mismatch")
		ctx.Res.Note("schema mismatch: %v", err)
		return false, nil
	}
	rn := &runner{ctx: ctx, r: r, idx: idx, pl: pl, db: db, all: s.AllFields(), known: known, cats: map[string]int{}}

	// ---- preload
	for _, o := range pl.Pre {
		switch o.Kind {
		case "ingest":
			if err := rn.ingest(fmt.Sprintf("k%d", o.Key), tsOf(s, o.Period, o.Sub), o.Vals); err != nil {
				ctx.Res.Hit("insert-error")
			}
		case "flush":
			if !rn.flush() {
				return true, nil
			}
			ctx.Res.Hit("preload-flush")
		}
	}
	if !db.Quiesce(waitLimit) {
		return true, nil
	}
	pre, order, err := rn.fullView()
	if err != nil {
		ctx.Res.Note("pre-scan failed: %v", err)
		return true, nil
	}
	rn.viewEvents(pre, order)
	var preFlat map[string]flatObs
	if pl.SQL != "" {
		_, frows, qerr := db.Query(pl.SQL, true, waitLimit)
		if qerr != nil {
			ctx.Res.Hit("sql-error")
			ctx.Res.Note("query %q failed: %v", pl.SQL, qerr)
			return false, nil
		}
		preFlat = map[string]flatObs{}
		for _, fr := range frows {
			fo := flatObs{KS: dbk.KeyString(fr.Key), TS: fr.TS, Values: fr.Values}
			preFlat[flatKey(fo)] = fo
		}
		ctx.Res.Hit("sql:" + pl.SQL)
	} else {
		ctx.Res.Hit("raw-scan")
	}

	if pl.FlushHeld {
		return flushHeldCase(ctx, rn, pre, order)
	}

	// ---- the held scan
	h := &held{pause: make(chan pauseMsg), resume: make(chan bool), abort: make(chan struct{}), done: make(chan error, 1)}
	armed.Store(func(name, table string) {
		if name != "scan.start" || table != s.Table || !atomic.CompareAndSwapInt32(&h.sawStart, 0, 1) {
			return
		}
		h.wait(0)
	})
	defer armed.Store(func(string, string) {})
	go func() {
		var ierr error
		pn := hk.Recover(func() {
			if pl.SQL == "" {
				ierr = db.VerifIterate(context.Background(), s.Table, nil, true, func(key bytemap.ByteMap, vals []encoding.Sequence) (bool, error) {
					m := key.AsMap()
					name, _ := m["d"].(string)
					h.mu.Lock()
					h.rows = append(h.rows, obsRow{KS: dbk.KeyString(m), Name: name, Cols: vals})
					n := len(h.rows)
					h.mu.Unlock()
					return h.wait(n), nil
				})
			} else {
				var src core.FlatRowSource
				src, ierr = db.DB.Query(pl.SQL, false, nil, true)
				if ierr != nil {
					return
				}
				_, ierr = src.Iterate(context.Background(), func(core.Fields) error { return nil }, func(row *core.FlatRow) (bool, error) {
					vals := append([]float64(nil), row.Values...)
					h.mu.Lock()
					h.flats = append(h.flats, flatObs{KS: dbk.KeyString(row.Key.AsMap()), TS: row.TS, Values: vals})
					n := len(h.flats)
					h.mu.Unlock()
					return h.wait(n), nil
				})
			}
		})
		if pn != nil {
			ierr = fmt.Errorf("panic: %v", pn)
		}
		h.done <- ierr
	}()

	abort := func() {
		close(h.abort)
		select {
		case <-h.done:
		case <-time.After(waitLimit):
		}
	}
	delivered := map[string]bool{}
	lastKey := ""
	interesting := false
	touched := map[string]bool{} // pre-scan keys that received an in-scan insert before their delivery
	var scanErr error
	rn.events = append(rn.events, map[string]interface{}{"ev": "scanStart"})
	rn.implOut = append(rn.implOut, nil)
	started := false
loop:
	for {
		select {
		case pm := <-h.pause:
			if pm.n == 0 {
				started = true
			} else if pl.SQL == "" {
				h.mu.Lock()
				row := h.rows[pm.n-1]
				h.mu.Unlock()
				delivered[row.KS] = true
				rn.events = append(rn.events, map[string]interface{}{"ev": "deliver", "sid": 0, "key": dbk.KeyJSON(keyDims(row.Name))})
				rn.implOut = append(rn.implOut, colsJSON(rn.all, row.Cols))
			} else {
				// SQL: a table row counts as delivered once one of its flat rows was handed out
				h.mu.Lock()
				lastKey = h.flats[pm.n-1].KS
				h.mu.Unlock()
				delivered[lastKey] = true
			}
			for _, o := range pl.Gates[pm.n] {
				if o.Kind == "flush" {
					if !rn.flush() {
						ctx.Res.Note("case %d: a forced flush did not complete within %v while the scan was held after %d rows (liveness)", idx, waitLimit, pm.n)
						abort()
						return true, nil
					}
					ctx.Res.Hit("inscan:flush")
					continue
				}
				if o.Kind == "advance" || o.Kind == "alter" || o.Cat == "far-key" {
					// a change of the scan's environment: interesting when a row with file data
					// is still to come
					for _, ks := range order {
						if !delivered[ks] {
							interesting = true
						}
					}
				}
				if o.Kind == "advance" {
					t := tsOf(s, o.Period, 0)
					db.VerifAdvanceClock(t)
					rn.events = append(rn.events, map[string]interface{}{"ev": "advance", "t": fmt.Sprint(t.UnixNano())})
					rn.implOut = append(rn.implOut, nil)
					ctx.Res.Hit("inscan:advance-clock")
					continue
				}
				if o.Kind == "alter" {
					if !rn.alter() {
						ctx.Res.Note("case %d: ALTER did not take effect within %v while the scan was held after %d rows", idx, waitLimit, pm.n)
						abort()
						return true, nil
					}
					ctx.Res.Hit("inscan:alter")
					continue
				}
				name, ts, cat := rn.resolve(o, pre, order, delivered)
				if err := rn.ingest(name, ts, o.Vals); err != nil {
					ctx.Res.Hit("insert-error")
					continue
				}
				ctx.Res.Hit("inscan:" + cat)
				ks := dbk.KeyString(keyDims(name))
				if _, existed := pre[ks]; existed && (!delivered[ks] || (pl.SQL != "" && ks == lastKey)) {
					interesting = true
					touched[ks] = true
				}
			}
			if len(pl.Gates[pm.n]) > 0 {
				if pm.n == 0 {
					ctx.Res.Hit("gate:after-copy")
				} else {
					ctx.Res.Hit("gate:after-row")
				}
				if !db.Quiesce(waitLimit) {
					ctx.Res.Note("case %d: inserts were not applied within %v while the scan was held after %d rows (liveness: does the held scan block processInserts?)", idx, waitLimit, pm.n)
					abort()
					return true, nil
				}
			}
			select {
			case h.resume <- true:
			case <-time.After(waitLimit):
				abort()
				return true, nil
			}
		case scanErr = <-h.done:
			break loop
		case <-time.After(waitLimit):
			ctx.Res.Note("case %d: the held scan made no progress for %v", idx, waitLimit)
			abort()
			return true, nil
		}
	}
	if !started {
		ctx.Res.Note("case %d: scan finished without a scan.start event", idx)
		return true, nil
	}
	if scanErr != nil {
		ctx.Res.Note("case %d: scan error: %v", idx, scanErr)
		return true, nil
	}
	if !db.Quiesce(waitLimit) {
		return true, nil
	}
	if !rn.altered {
		// (ALTER is not part of the model: after it only the deliveries are compared)
		final, forder, err := rn.fullView()
		if err != nil {
			return true, nil
		}
		rn.viewEvents(final, forder)
	}
	if pl.Env {
		ctx.Res.Hit("env-plan")
	}

	req := rn.request()
	ctx.Res.Count(req, interesting)
	ctx.Res.TracesValidated++

	// ---- property oracle (implementation only)
	var fails []string
	if pl.SQL == "" {
		seen := map[string]bool{}
		for i, row := range h.rows {
			pr, ok := pre[row.KS]
			if seen[row.KS] {
				fails = append(fails, fmt.Sprintf("row %d: key %s delivered twice", i, row.KS))
			}
			seen[row.KS] = true
			if !ok {
				fails = append(fails, fmt.Sprintf("row %d: key %s did not exist when the scan started", i, row.KS))
				continue
			}
			if d := diffSem(semRow(rn.all, row.Cols, s.Res), pr.sem); d != "" {
				fails = append(fails, fmt.Sprintf("row %d (key %s) differs from the pre-scan view: %s", i, row.KS, d))
			}
		}
		for _, ks := range order {
			if !seen[ks] {
				fails = append(fails, fmt.Sprintf("key %s of the pre-scan view was not delivered", ks))
			}
		}
	} else {
		seen := map[string]bool{}
		for i, f := range h.flats {
			k := flatKey(f)
			pf, ok := preFlat[k]
			if seen[k] {
				fails = append(fails, fmt.Sprintf("flat row %d: %s delivered twice", i, k))
			}
			seen[k] = true
			if !ok {
				fails = append(fails, fmt.Sprintf("flat row %d: %s is not in the result of the same query before the scan", i, k))
				continue
			}
			if !reflect.DeepEqual(pf.Values, f.Values) {
				fails = append(fails, fmt.Sprintf("flat row %d (%s): values %v, before the scan %v", i, k, f.Values, pf.Values))
			}
		}
		for k := range preFlat {
			if !seen[k] {
				fails = append(fails, fmt.Sprintf("flat row %s of the pre-scan result was not delivered", k))
			}
		}
		sort.Strings(fails)
	}

	// ---- model
	modelDiff, modelRow, err := rn.compareModel(req)
	if err != nil {
		return false, err
	}

	if len(fails) > 0 {
		finding := ""
		if known[findingShared] && pl.SQL != "" {
			// SQL: every failing flat row belongs to a key that received an in-scan insert
			// before (or while) its flat rows were handed out
			match := len(touched) > 0
			for i, f := range h.flats {
				pf, ok := preFlat[flatKey(f)]
				if (!ok || !reflect.DeepEqual(pf.Values, f.Values)) && !touched[f.KS] {
					match = false
					_ = i
				}
			}
			for k, pf := range preFlat {
				miss := true
				for _, f := range h.flats {
					if flatKey(f) == k {
						miss = false
					}
				}
				if miss && !touched[pf.KS] {
					match = false
				}
			}
			if match {
				finding = findingShared
			}
		}
		if known[findingShared] && pl.SQL == "" {
			// matcher: every failing row is the row of a key that received an in-scan insert
			// before its delivery, and the deliveries are exactly what the SHARING copy of
			// the model predicts for this schedule
			req2 := map[string]interface{}{}
			for k, x := range req {
				req2[k] = x
			}
			req2["mode"] = "shared"
			if out2, err2 := ctx.Model.Call(req2); err2 == nil {
				var m2 struct {
					Outs []struct {
						Row json.RawMessage `json:"row"`
					} `json:"outs"`
				}
				if json.Unmarshal(out2, &m2) == nil {
					match := true
					for i, io := range rn.implOut {
						if io == nil || i >= len(m2.Outs) {
							continue
						}
						var mr interface{}
						json.Unmarshal(m2.Outs[i].Row, &mr)
						if !sameJSON(io, mr) {
							match = false
						}
					}
					for i, row := range h.rows {
						if pr, ok := pre[row.KS]; ok && diffSem(semRow(rn.all, row.Cols, s.Res), pr.sem) != "" && !touched[row.KS] {
							match = false
							_ = i
						}
					}
					if match && len(h.rows) == len(order) {
						finding = findingShared
					}
				}
			}
		}
		what := "a row delivered by the held scan differs from the pre-scan view (or a row is missing / extra)"
		if pl.SQL != "" {
			what = "a flat row delivered by the held SQL query differs from the result of the same query before the scan"
		}
		if len(fails) > 6 {
			fails = fails[:6]
		}
		ctx.Res.Disagree(hk.Disagreement{Kind: "property", Case: req, Impl: map[string]interface{}{"failures": fails, "observed": rn.implOut},
			Detail: "C18: " + what, PropertyFails: true, Prop: "C18", Finding: finding, Index: idx})
		if finding != "" {
			return false, nil
		}
	}
	if modelDiff >= 0 {
		ctx.Res.Disagree(hk.Disagreement{Kind: "model-vs-impl", Case: req, Impl: map[string]interface{}{"event": modelDiff, "row": rn.implOut[modelDiff]}, Model: modelRow,
			Detail: fmt.Sprintf("a %v event differs", rn.events[modelDiff].(map[string]interface{})["ev"]), Index: idx})
	}
	return false, nil
}
