package coalesce

import (
	"context"
	"errors"
	"fmt"
	"strings"
	"sync"
	"time"

	"github.com/getlantern/bytemap"
	"github.com/getlantern/zenodb"
	"github.com/getlantern/zenodb/core"
	"github.com/getlantern/zenodb/encoding"

	"zvh/dbk"
	"zvh/hk"
)

// Interval is the IterationCoalesceInterval of the embedded databases: queries released
// through a barrier arrive within it, queries run one at a time do not.
const Interval = 300 * time.Millisecond

// slack added between arrival groups so that a later group misses the window
const groupSlack = 200 * time.Millisecond

var errConsumer = errors.New("zvh: consumer failed on purpose")

// ---------------------------------------------------------------- event sink

type event struct {
	name   string
	n      int      // coalesce.batch: size
	fields []string // coalesce.iteration / coalesce.union: printed field identities
	mem    bool
}

type collector struct {
	mu  sync.Mutex
	evs []event
}

var (
	sinkOnce   sync.Once
	collMu     sync.Mutex
	collectors = map[string]*collector{}
)

func fieldStrings(fs core.Fields) []string {
	out := make([]string, len(fs))
	for i, f := range fs {
		out[i] = f.String()
	}
	return out
}

func installSink() {
	sinkOnce.Do(func() {
		zenodb.VerifSetSink(func(name string, table string, args []interface{}) {
			if !strings.HasPrefix(name, "coalesce.") {
				return
			}
			collMu.Lock()
			c := collectors[table]
			collMu.Unlock()
			if c == nil {
				return
			}
			ev := event{name: name}
			switch name {
			case "coalesce.batch":
				if len(args) > 0 {
					ev.n, _ = args[0].(int)
				}
			case "coalesce.iteration", "coalesce.union":
				if len(args) > 1 {
					if fs, ok := args[0].(core.Fields); ok {
						ev.fields = fieldStrings(fs)
					}
					ev.mem, _ = args[1].(bool)
				}
			}
			c.mu.Lock()
			c.evs = append(c.evs, ev)
			c.mu.Unlock()
		})
	})
}

func register(table string) *collector {
	c := &collector{}
	collMu.Lock()
	collectors[table] = c
	collMu.Unlock()
	return c
}

func unregister(table string) {
	collMu.Lock()
	delete(collectors, table)
	collMu.Unlock()
}

func (c *collector) take() []event {
	c.mu.Lock()
	defer c.mu.Unlock()
	evs := c.evs
	c.evs = nil
	return evs
}

// sig identifies an iteration as doProcessIterations sees it.
type sig struct {
	Fields []string `json:"fields"`
	Mem    bool     `json:"mem"`
}

func (s sig) key() string { return fmt.Sprintf("%v|%s", s.Mem, strings.Join(s.Fields, "\x00")) }

// obsBatch is one doProcessIterations call as reported by the hooks.
type obsBatch struct {
	Size     int      `json:"size"`
	Its      []sig    `json:"its,omitempty"`   // from coalesce.iteration (C17 hooks patch), batch order
	Union    []string `json:"union,omitempty"` // from coalesce.union
	Mem      bool     `json:"mem"`
	HasUnion bool     `json:"has_union"`
}

func parseBatches(evs []event) []obsBatch {
	var out []obsBatch
	var pending []sig
	for _, ev := range evs {
		switch ev.name {
		case "coalesce.iteration":
			pending = append(pending, sig{Fields: ev.fields, Mem: ev.mem})
		case "coalesce.batch":
			out = append(out, obsBatch{Size: ev.n, Its: pending})
			pending = nil
		case "coalesce.union":
			if len(out) > 0 {
				out[len(out)-1].Union = ev.fields
				out[len(out)-1].Mem = ev.mem
				out[len(out)-1].HasUnion = true
			}
		}
	}
	return out
}

// ---------------------------------------------------------------- running one query

// rawRow is one row handed to a raw consumer: key and one content id per requested field
// (-1 = nil / empty sequence).
type rawRow struct {
	Key  string `json:"key"`
	Vals []int  `json:"vals"`
}

func (r rawRow) blank() bool {
	for _, v := range r.Vals {
		if v >= 0 {
			return false
		}
	}
	return true
}

// qres is what one query returned.
type qres struct {
	Raw    []rawRow `json:"raw,omitempty"`
	Fields []string `json:"fields,omitempty"` // sql
	Flat   []string `json:"flat,omitempty"`   // sql: "ts|key|v,v,…" per flat row
	Err    string   `json:"err"`              // "" | deadline | consumer | other:…
	Panic  string   `json:"panic,omitempty"`
}

func errClass(err error) string {
	switch {
	case err == nil:
		return ""
	case errors.Is(err, errConsumer) || strings.Contains(err.Error(), errConsumer.Error()):
		return "consumer"
	case errors.Is(err, core.ErrDeadlineExceeded) || strings.Contains(err.Error(), core.ErrDeadlineExceeded.Error()):
		return "deadline"
	}
	return "other:" + err.Error()
}

// ids assigns small integers to sequence contents.
type ids struct {
	mu sync.Mutex
	m  map[string]int
}

func (d *ids) of(s encoding.Sequence) int {
	if len(s) == 0 {
		return -1
	}
	d.mu.Lock()
	defer d.mu.Unlock()
	if id, ok := d.m[string(s)]; ok {
		return id
	}
	id := len(d.m)
	d.m[string(s)] = id
	return id
}

type runner struct {
	c       *Case
	db      *dbk.DB
	table   core.Fields // the table's fields
	foreign core.Fields
	ids     *ids
}

func (rn *runner) outFields(q *Query) core.Fields {
	if len(q.Fields) == 0 {
		return nil
	}
	out := make(core.Fields, 0, len(q.Fields))
	for _, i := range q.Fields {
		if i >= 0 {
			out = append(out, rn.table[i])
		} else {
			out = append(out, rn.foreign[-1-i])
		}
	}
	return out
}

func (rn *runner) ctxFor(q *Query) (context.Context, context.CancelFunc) {
	switch q.Deadline {
	case "expired":
		return context.WithDeadline(context.Background(), time.Now().Add(-time.Hour))
	case "far":
		return context.WithDeadline(context.Background(), time.Now().Add(time.Hour))
	case "short":
		return context.WithDeadline(context.Background(), time.Now().Add(time.Duration(q.ShortUs)*time.Microsecond))
	}
	return context.Background(), func() {}
}

// consume implements the stock consumers over "rows that count".
func consume(q *Query, cnt *int) (bool, error) {
	*cnt++
	switch q.Consumer {
	case "stopAt":
		return *cnt < q.K, nil
	case "errAt":
		if *cnt == q.K {
			return true, errConsumer
		}
	}
	return true, nil
}

// run executes one query; start (if not nil) is the barrier it waits on right before
// issuing the scan.
func (rn *runner) run(q *Query, start <-chan struct{}) (res qres) {
	if pn := hk.Recover(func() {
		if q.Kind == "raw" {
			res = rn.runRaw(q, start)
		} else {
			res = rn.runSQL(q, start)
		}
	}); pn != nil {
		res.Panic = fmt.Sprint(pn)
	}
	return
}

func (rn *runner) runRaw(q *Query, start <-chan struct{}) qres {
	var res qres
	fields := rn.outFields(q)
	if start != nil {
		<-start
	}
	ctx, cancel := rn.ctxFor(q)
	defer cancel()
	cnt := 0
	err := rn.db.VerifIterate(ctx, rn.c.Schema.Table, fields, q.Mem, func(key bytemap.ByteMap, vals []encoding.Sequence) (bool, error) {
		row := rawRow{Key: dbk.KeyString(key.AsMap()), Vals: make([]int, len(vals))}
		for i, v := range vals {
			row.Vals[i] = rn.ids.of(v)
		}
		res.Raw = append(res.Raw, row)
		if row.blank() {
			// like every consumer in the repo: a row without values is not reacted to
			return true, nil
		}
		return consume(q, &cnt)
	})
	res.Err = errClass(err)
	return res
}

func (rn *runner) runSQL(q *Query, start <-chan struct{}) qres {
	var res qres
	text := strings.ReplaceAll(q.SQL, "{T}", rn.c.Schema.Table)
	src, err := rn.db.DB.Query(text, false, nil, q.Mem)
	if start != nil {
		<-start
	}
	if err != nil {
		res.Err = "plan:" + err.Error()
		return res
	}
	ctx, cancel := rn.ctxFor(q)
	defer cancel()
	cnt := 0
	_, err = src.Iterate(ctx, func(fs core.Fields) error {
		res.Fields = fs.Names()
		return nil
	}, func(row *core.FlatRow) (bool, error) {
		vs := make([]string, len(row.Values))
		for i, v := range row.Values {
			vs[i] = hk.RatOfFloat(v)
		}
		res.Flat = append(res.Flat, fmt.Sprintf("%d|%s|%s", row.TS, dbk.KeyString(row.Key.AsMap()), strings.Join(vs, ",")))
		return consume(q, &cnt)
	})
	res.Err = errClass(err)
	return res
}

// runGroup releases the queries qs (indexes into c.Queries) in their arrival groups and
// waits for all of them. ok=false: timed out.
func (rn *runner) runGroups(qs []int, timeout time.Duration) (map[int]qres, bool) {
	out := map[int]qres{}
	var mu sync.Mutex
	var wg sync.WaitGroup
	gates := map[int]chan struct{}{}
	maxG := 0
	for _, i := range qs {
		g := rn.c.Queries[i].Group
		if gates[g] == nil {
			gates[g] = make(chan struct{})
		}
		if g > maxG {
			maxG = g
		}
	}
	for _, i := range qs {
		wg.Add(1)
		go func(i int) {
			defer wg.Done()
			q := &rn.c.Queries[i]
			r := rn.run(q, gates[q.Group])
			mu.Lock()
			out[i] = r
			mu.Unlock()
		}(i)
	}
	// let the goroutines reach the barrier (sql queries are parsed and planned before it)
	time.Sleep(20 * time.Millisecond)
	for g := 0; g <= maxG; g++ {
		if gates[g] != nil {
			close(gates[g])
		}
		if g < maxG {
			time.Sleep(Interval + groupSlack)
		}
	}
	done := make(chan struct{})
	go func() { wg.Wait(); close(done) }()
	select {
	case <-done:
		return out, true
	case <-time.After(timeout):
		return nil, false
	}
}
