// Package coalesce is the correspondence engine for C17 (iteration coalescing, M-COALESCE):
// 2-8 generated queries (raw table scans with field subsets through VerifIterate and SQL
// queries through db.Query(...).Iterate; LIMIT / ORDER BY / time ranges, consumers that stop
// or fail at row k, expired / far / short deadlines) are issued concurrently against a real
// embedded zenodb whose IterationCoalesceInterval is large, so that they are served by one
// shared scan (the batch composition is confirmed through the coalesce.* verif events), and
// then again one at a time.
//
// Property oracle (implementation only): every query's concurrent result equals its solo
// result.  Model tie: the Lean model (driver engine "coalesce", op "batch") is given the
// table contents (taken from solo full-field raw scans) and the observed batch and must
// predict, for every raw query, exactly the rows its callback saw and its error — in the
// batch and alone — as well as the field union and the includeMemStore of the shared scan.
package coalesce

import (
	"encoding/json"
	"fmt"
	"os"
	"path/filepath"
	"reflect"
	"sort"
	"strings"
	"sync"
	"time"

	"github.com/getlantern/zenodb"
	"github.com/getlantern/zenodb/core"

	"zvh/dbk"
	"zvh/hk"
)

type Engine struct{}

const findingMemOr = "C17-includeMemStore-or"

// knownIDs returns the ids of the known findings of this property listed in $ZV_KNOWN.
func knownIDs(prop string) map[string]bool {
	out := map[string]bool{}
	b, err := os.ReadFile(os.Getenv("ZV_KNOWN"))
	if err != nil {
		return out
	}
	var kf struct {
		Known []struct {
			ID       string `json:"id"`
			Property string `json:"property"`
		} `json:"known"`
	}
	if json.Unmarshal(b, &kf) != nil {
		return out
	}
	for _, k := range kf.Known {
		if k.Property == prop || prop == "" {
			out[k.ID] = true
		}
	}
	return out
}

type eng struct {
	ctx   *hk.RunCtx
	known map[string]bool
	mu    sync.Mutex
}

func (e *eng) hit(k string) { e.ctx.Res.Hit(k) }

func (Engine) Run(ctx *hk.RunCtx) error {
	e := &eng{ctx: ctx, known: knownIDs(ctx.Prop)}
	ctx.Res.Rule = "case = generated table (schema, points, flush positions = filestore/memstore split) + 2-8 queries (raw field subsets / SQL; consumers collect, stop at row k, fail at row k; deadlines none, expired, far, short; arrival groups) run concurrently and alone; distinct by canonical case JSON; non-trivial = the table holds at least 2 rows and some observed batch coalesced at least 2 queries"
	installSink()
	if ctx.Replay != "" {
		return e.replayFile(ctx.Replay, 1<<41)
	}
	workers := 8
	if ctx.Tier == "thorough" {
		workers = 12
	}
	jobs := make(chan func() error)
	var wg sync.WaitGroup
	var firstErr error
	var emu sync.Mutex
	for w := 0; w < workers; w++ {
		wg.Add(1)
		go func() {
			defer wg.Done()
			for job := range jobs {
				if err := job(); err != nil {
					emu.Lock()
					if firstErr == nil {
						firstErr = err
					}
					emu.Unlock()
				}
			}
		}()
	}
	if ctx.Corpus != "" {
		files, _ := filepath.Glob(filepath.Join(ctx.Corpus, "*.json"))
		sort.Strings(files)
		for i, f := range files {
			i, f := i, f
			jobs <- func() error {
				e.hit("corpus")
				if err := e.replayFile(f, uint64(1<<40)+uint64(i)); err != nil {
					return fmt.Errorf("corpus %s: %v", f, err)
				}
				return nil
			}
		}
	}
	for i := ctx.From; i < ctx.From+ctx.N; i++ {
		idx := uint64(i)
		jobs <- func() error {
			r := hk.Derive(ctx.Seed, idx)
			c := genCase(r, idx)
			dumpCase(c, idx)
			return e.runCaseRetry(c, idx)
		}
	}
	close(jobs)
	wg.Wait()
	return firstErr
}

func (e *eng) replayFile(path string, idx uint64) error {
	b, err := os.ReadFile(path)
	if err != nil {
		return err
	}
	var top map[string]json.RawMessage
	if err := json.Unmarshal(b, &top); err != nil {
		return err
	}
	// a corpus file is the case itself; a replay file written by check.py wraps the
	// disagreement's case ({"case": {"engine", "case": <the case>, "query", "batches"}})
	raw := json.RawMessage(b)
	for depth := 0; depth < 3; depth++ {
		if _, isCase := top["schema"]; isCase {
			break
		}
		inner, ok := top["case"]
		if !ok {
			break
		}
		raw = inner
		top = map[string]json.RawMessage{}
		if err := json.Unmarshal(raw, &top); err != nil {
			return err
		}
	}
	var c Case
	if err := json.Unmarshal(raw, &c); err != nil {
		return err
	}
	if c.Schema == nil || len(c.Queries) == 0 {
		return fmt.Errorf("%s: not a coalesce case", path)
	}
	c.Schema.Table = fmt.Sprintf("t%d", idx)
	return e.runCaseRetry(&c, idx)
}

// errInfra marks infrastructure trouble (timeouts, unexpected batch composition).
type errInfra struct{ why string }

func (e errInfra) Error() string { return e.why }

func (e *eng) runCaseRetry(c *Case, idx uint64) error {
	for attempt := 0; attempt < 2; attempt++ {
		err := e.runCase(c, idx, attempt == 1)
		if inf, ok := err.(errInfra); ok {
			e.hit("infra:" + inf.why)
			if attempt == 0 {
				continue
			}
			e.mu.Lock()
			e.ctx.Res.Inconclusive++
			e.mu.Unlock()
			return nil
		}
		return err
	}
	return nil
}

func sameJSON(a interface{}, b interface{}) bool {
	ab, _ := json.Marshal(a)
	bb, _ := json.Marshal(b)
	var x, y interface{}
	json.Unmarshal(ab, &x)
	json.Unmarshal(bb, &y)
	return reflect.DeepEqual(x, y)
}

func nonBlank(rows []rawRow) []rawRow {
	out := []rawRow{}
	for _, r := range rows {
		if !r.blank() {
			out = append(out, r)
		}
	}
	return out
}

// sameResult is the property's notion of "the same result": SQL — same fields, same flat rows
// in the same order, same error class; raw — same callback inputs up to rows without any
// value, same error class.
func sameResult(q *Query, a, b qres) bool {
	if a.Err != b.Err || a.Panic != b.Panic {
		return false
	}
	if q.Kind == "sql" {
		return sameJSON(a.Fields, b.Fields) && sameJSON(a.Flat, b.Flat)
	}
	return sameJSON(nonBlank(a.Raw), nonBlank(b.Raw))
}

// modelIter renders a query as the model's iteration.
func (rn *runner) modelIter(q *Query, s sig, knownSig bool) map[string]interface{} {
	it := map[string]interface{}{"mem": q.Mem}
	if q.Kind == "raw" {
		fs := rn.outFields(q)
		if fs == nil {
			fs = rn.table
		}
		it["fields"] = fieldStrings(fs)
		cons := map[string]interface{}{"kind": q.Consumer, "skipBlank": true}
		if q.Consumer != "collect" {
			cons["k"] = q.K
			cons["code"] = 1
		}
		it["consumer"] = cons
		if q.Deadline == "expired" {
			it["deadline"] = 0
		}
	} else {
		// the SQL pipeline is not modelled: only what it asks of the table enters the batch
		if knownSig {
			it["fields"] = s.Fields
			it["mem"] = s.Mem
		} else {
			it["fields"] = fieldStrings(rn.table)
		}
		it["consumer"] = map[string]interface{}{"kind": "collect"}
	}
	return it
}

type modelOut struct {
	Union   []string `json:"union"`
	Mem     bool     `json:"mem"`
	Results []struct {
		Recv []struct {
			Key  string `json:"key"`
			Vals []*int `json:"vals"`
		} `json:"recv"`
		Err *string `json:"err"`
	} `json:"results"`
	PreFix json.RawMessage `json:"pre_fix"`
}

func (m *modelOut) result(i int) qres {
	var r qres
	for _, rv := range m.Results[i].Recv {
		row := rawRow{Key: rv.Key, Vals: make([]int, len(rv.Vals))}
		for j, v := range rv.Vals {
			if v == nil {
				row.Vals[j] = -1
			} else {
				row.Vals[j] = *v
			}
		}
		r.Raw = append(r.Raw, row)
	}
	if m.Results[i].Err != nil {
		e := *m.Results[i].Err
		if strings.HasPrefix(e, "consumer") {
			e = "consumer"
		}
		r.Err = e
	}
	return r
}

func tableJSON(fields []string, fresh, disk []dbk.RawRow, d *ids) map[string]interface{} {
	onDisk := map[string]bool{}
	for _, r := range disk {
		onDisk[dbk.KeyString(r.Key)] = true
	}
	rows := func(rs []dbk.RawRow) []interface{} {
		out := []interface{}{}
		for _, r := range rs {
			cols := []interface{}{}
			for i, f := range fields {
				var v interface{}
				if i < len(r.Cols) {
					if id := d.of(r.Cols[i]); id >= 0 {
						v = id
					}
				}
				cols = append(cols, []interface{}{f, v})
			}
			k := dbk.KeyString(r.Key)
			out = append(out, map[string]interface{}{"key": k, "cols": cols, "mem": !onDisk[k]})
		}
		return out
	}
	return map[string]interface{}{"disk": rows(disk), "fresh": rows(fresh)}
}

func (e *eng) runCase(c *Case, idx uint64, retry bool) error {
	s := c.Schema
	ctx := e.ctx
	db, err := dbk.Open(dbk.Opts{Coalesce: Interval})
	if err != nil {
		return err
	}
	defer db.CloseAndRemove()
	if err := db.CreateTable(s); err != nil {
		e.hit("create-table-error")
		ctx.Res.Note("create table failed: %v (%s)", err, s.SQL())
		return nil
	}
	coll := register(s.Table)
	defer unregister(s.Table)

	rn := &runner{c: c, db: db, ids: &ids{m: map[string]int{}}}
	for _, f := range c.Foreign {
		rn.foreign = append(rn.foreign, core.NewField(f.Name, f.Node.Build()))
	}

	// ---- data
	flushAt := map[int]int{}
	for _, f := range c.Flush {
		flushAt[f]++
	}
	nFlush := 0
	alter := func() error {
		if !db.Quiesce(10 * time.Second) {
			return errInfra{"quiesce-timeout"}
		}
		a := *c.Alter
		a.Table, a.Stream = s.Table, s.Stream
		err := db.DB.ApplySchema(zenodb.Schema{s.Table: &zenodb.TableOpts{Name: s.Table, RetentionPeriod: a.Retention, SQL: a.SQL(),
			MinFlushLatency: 10000 * time.Hour, MaxFlushLatency: 20000 * time.Hour}})
		if err != nil {
			return fmt.Errorf("case %d: alter failed: %v", idx, err)
		}
		e.hit("altered-table")
		return nil
	}
	if c.Alter != nil && c.AlterAfter == 0 {
		if err := alter(); err != nil {
			return err
		}
	}
	for i, p := range c.Points {
		if err := db.Insert(s.Stream, p); err != nil {
			e.hit("insert-error")
		}
		if flushAt[i+1] > 0 {
			if !db.Quiesce(10 * time.Second) {
				return errInfra{"quiesce-timeout"}
			}
			db.VerifForceFlush(s.Table)
			nFlush++
		}
		if c.Alter != nil && c.AlterAfter == i+1 {
			if err := alter(); err != nil {
				return err
			}
		}
	}
	if !db.Quiesce(10 * time.Second) {
		return errInfra{"quiesce-timeout"}
	}

	rn.table = db.VerifFields(s.Table)
	for qi := range c.Queries {
		for _, fi := range c.Queries[qi].Fields {
			if fi >= len(rn.table) || -1-fi >= len(rn.foreign) {
				return fmt.Errorf("case %d: query %d refers to field %d which does not exist", idx, qi, fi)
			}
		}
	}

	// ---- the table as solo full-field scans see it
	fresh, err := db.Scan(s.Table, nil, true)
	if err != nil {
		return errInfra{"reference-scan-error"}
	}
	disk, err := db.Scan(s.Table, nil, false)
	if err != nil {
		return errInfra{"reference-scan-error"}
	}
	tfields := fieldStrings(rn.table)
	table := tableJSON(tfields, fresh, disk, rn.ids)
	coll.take()

	// ---- every query alone
	all := make([]int, len(c.Queries))
	solo := make([]qres, len(c.Queries))
	sigs := make([]sig, len(c.Queries))
	haveSig := make([]bool, len(c.Queries))
	noScan := make([]bool, len(c.Queries))
	for i := range c.Queries {
		all[i] = i
		q := c.Queries[i]
		q.Group = 0
		one := *rn
		oc := *c
		oc.Queries = []Query{q}
		one.c = &oc
		res, ok := one.runGroups([]int{0}, 30*time.Second)
		if !ok {
			return errInfra{"solo-timeout"}
		}
		solo[i] = res[0]
		bs := parseBatches(coll.take())
		planFailed := strings.HasPrefix(solo[i].Err, "plan:")
		if planFailed || len(bs) == 0 {
			// the query never reached the table (plan error, or its own pipeline refused to start)
			if len(bs) != 0 {
				return errInfra{"solo-unexpected-batch"}
			}
			noScan[i] = true
			if !planFailed {
				e.hit("query-did-not-scan")
			}
			continue
		}
		if len(bs) != 1 || bs[0].Size != 1 {
			return errInfra{"solo-not-alone"}
		}
		if len(bs[0].Its) == 1 {
			sigs[i], haveSig[i] = bs[0].Its[0], true
		}
	}

	// ---- all of them concurrently
	conc, ok := rn.runGroups(all, 60*time.Second)
	if !ok {
		return errInfra{"concurrent-timeout"}
	}
	batches := parseBatches(coll.take())
	debugDump(c, solo, conc, batches)

	// ---- which query went into which batch
	scanning := []int{} // queries that reached the table
	for i := range c.Queries {
		if !noScan[i] {
			scanning = append(scanning, i)
		} else if !sameResult(&c.Queries[i], conc[i], solo[i]) {
			ctx.Res.Disagree(hk.Disagreement{Kind: "property", Case: map[string]interface{}{"engine": "coalesce", "case": c, "query": i},
				Impl: map[string]interface{}{"concurrent": conc[i], "solo": solo[i]},
				Detail: "query that does not reach the table: concurrent result differs from its solo result", PropertyFails: true, Index: idx})
			return nil
		}
	}
	total := 0
	for _, b := range batches {
		total += b.Size
	}
	if total != len(scanning) {
		return errInfra{"batch-sizes-do-not-add-up"}
	}
	assign := make([][]int, len(batches)) // batch -> query indexes in batch order
	exactOrder := true
	withIts := len(batches) > 0
	for _, b := range batches {
		if len(b.Its) != b.Size {
			withIts = false
		}
	}
	for _, i := range scanning {
		if !haveSig[i] {
			withIts = false
		}
	}
	if withIts {
		// queries with the same signature (fields, includeMemStore) are told apart by their
		// arrival group: batch bi is expected to hold the bi-th group
		var gids []int
		seenG := map[int]bool{}
		for _, i := range scanning {
			if g := c.Queries[i].Group; !seenG[g] {
				seenG[g] = true
				gids = append(gids, g)
			}
		}
		sort.Ints(gids)
		used := map[int]bool{}
		for bi, b := range batches {
			for _, it := range b.Its {
				found := -1
				for _, i := range scanning {
					if !used[i] && sigs[i].key() == it.key() {
						if found < 0 {
							found = i
						}
						if len(gids) == len(batches) && c.Queries[i].Group == gids[bi] {
							found = i
							break
						}
					}
				}
				if found < 0 {
					return errInfra{"batch-member-not-recognised"}
				}
				used[found] = true
				assign[bi] = append(assign[bi], found)
			}
		}
		if len(gids) != len(batches) {
			// the batches are not the arrival groups: queries with one signature that ended up
			// in different batches cannot be told apart
			where := map[string]int{}
			for bi, qs := range assign {
				for _, i := range qs {
					if b0, ok := where[sigs[i].key()]; ok && b0 != bi {
						return errInfra{"ambiguous-batch-attribution"}
					}
					where[sigs[i].key()] = bi
				}
			}
		}
	} else {
		// without the per-iteration events only the sizes are known: accept the intended
		// composition (arrival groups), order inside a batch unknown
		exactOrder = false
		e.hit("no-iteration-events")
		groups := map[int][]int{}
		gids := []int{}
		for _, i := range scanning {
			g := c.Queries[i].Group
			if _, ok := groups[g]; !ok {
				gids = append(gids, g)
			}
			groups[g] = append(groups[g], i)
		}
		sort.Ints(gids)
		if len(gids) != len(batches) {
			return errInfra{"batches-differ-from-arrival-groups"}
		}
		for bi, g := range gids {
			if len(groups[g]) != batches[bi].Size {
				return errInfra{"batches-differ-from-arrival-groups"}
			}
			assign[bi] = groups[g]
		}
	}
	batchOf := map[int]int{}
	maxBatch := 0
	for bi, qs := range assign {
		for _, i := range qs {
			batchOf[i] = bi
		}
		if len(qs) > maxBatch {
			maxBatch = len(qs)
		}
	}

	// ---- accounting
	canon := map[string]interface{}{"engine": "coalesce", "case": c}
	ctx.Res.Count(canon, len(fresh) >= 2 && maxBatch >= 2)
	e.mu.Lock()
	ctx.Res.TracesValidated += len(batches)
	e.mu.Unlock()
	e.hit(fmt.Sprintf("queries:%d", len(c.Queries)))
	e.hit(fmt.Sprintf("largest-batch:%d", maxBatch))
	e.hit(fmt.Sprintf("concurrent-batches:%d", min(len(batches), 3)))
	e.hit(fmt.Sprintf("rows:%s", bucket(len(fresh))))
	e.hit(fmt.Sprintf("flushes:%d", nFlush))
	memOnly := 0
	for _, r := range table["fresh"].([]interface{}) {
		if r.(map[string]interface{})["mem"].(bool) {
			memOnly++
		}
	}
	if memOnly > 0 && len(disk) > 0 {
		e.hit("split:file+memstore-only-rows")
	} else if memOnly > 0 {
		e.hit("split:memstore-only")
	} else if len(disk) > 0 {
		e.hit("split:file-only-keys")
	}
	if !sameJSON(rawKeyVals(fresh, rn.ids), rawKeyVals(disk, rn.ids)) && len(disk) > 0 {
		e.hit("split:memstore-changes-file-rows")
	}
	for i := range c.Queries {
		q := &c.Queries[i]
		e.hit("q:" + q.Kind + "/" + q.Consumer)
		if q.Deadline != "" {
			e.hit("deadline:" + q.Deadline)
		}
		for _, f := range q.Fields {
			if f < 0 {
				e.hit("q:foreign-field")
				break
			}
		}
		seen := map[int]bool{}
		for _, f := range q.Fields {
			if seen[f] {
				e.hit("q:duplicate-field")
				break
			}
			seen[f] = true
		}
		if conc[i].Err != "" {
			e.hit("concurrent-err:" + strings.SplitN(conc[i].Err, ":", 2)[0])
			if strings.HasPrefix(conc[i].Err, "other:") {
				ctx.Res.Note("query error: %s (%s)", conc[i].Err, q.SQL)
			}
		}
		if q.Kind == "sql" && q.Consumer == "collect" && conc[i].Err == "" && strings.Contains(q.SQL, "LIMIT") {
			e.hit("sql:limit")
		}
	}

	// ---- property oracle: concurrent = solo
	fail := func(kind, detail string, i int, impl, model interface{}, propFails bool, finding string) {
		rc := map[string]interface{}{"engine": "coalesce", "case": c, "query": i, "batches": assign}
		ctx.Res.Disagree(hk.Disagreement{Kind: kind, Case: rc, Impl: impl, Model: model, Detail: detail,
			PropertyFails: propFails, Finding: finding, Index: idx})
	}
	orMem := make([]bool, len(batches))
	for bi, qs := range assign {
		for _, i := range qs {
			m := c.Queries[i].Mem
			if haveSig[i] {
				m = sigs[i].Mem
			}
			orMem[bi] = orMem[bi] || m
		}
	}
	suspectMemOr := map[int]bool{}
	for _, i := range scanning {
		q := &c.Queries[i]
		if sameResult(q, conc[i], solo[i]) {
			continue
		}
		if q.Deadline == "short" && (conc[i].Err == "deadline" || solo[i].Err == "deadline") {
			e.hit("short-deadline-fired")
			continue
		}
		qmem := q.Mem
		if haveSig[i] {
			qmem = sigs[i].Mem
		}
		if !qmem && orMem[batchOf[i]] {
			// may be the OR of includeMemStore; decided below against "the same query with the memstore"
			suspectMemOr[i] = true
			continue
		}
		fail("property", fmt.Sprintf("%s query: concurrent result differs from its solo result", q.Kind), i,
			map[string]interface{}{"concurrent": conc[i], "solo": solo[i]}, nil, true, "")
		return nil
	}
	for i := range suspectMemOr {
		q := c.Queries[i]
		q.Mem = true
		q.Group = 0
		one := *rn
		oc := *c
		oc.Queries = []Query{q}
		one.c = &oc
		res, ok := one.runGroups([]int{0}, 30*time.Second)
		coll.take()
		if !ok {
			return errInfra{"solo-timeout"}
		}
		if sameResult(&q, conc[i], res[0]) {
			e.hit("known:includeMemStore-or")
			finding := ""
			if e.known[findingMemOr] {
				finding = findingMemOr
			}
			fail("property", "disk-only query coalesced with a memstore query was handed memstore data (includeMemStore is OR-ed over the batch)", i,
				map[string]interface{}{"concurrent": conc[i], "solo": solo[i]}, nil, true, finding)
			if finding == "" {
				return nil
			}
			continue
		}
		fail("property", fmt.Sprintf("%s query: concurrent result differs from its solo result (not explained by the includeMemStore OR)", q.Kind), i,
			map[string]interface{}{"concurrent": conc[i], "solo": solo[i], "solo_with_memstore": res[0]}, nil, true, "")
		return nil
	}

	// ---- model tie
	if ctx.Model == nil || c.Alter != nil {
		return nil
	}
	callModel := func(qs []int) (*modelOut, map[string]interface{}, error) {
		its := []interface{}{}
		for _, i := range qs {
			its = append(its, rn.modelIter(&c.Queries[i], sigs[i], haveSig[i]))
		}
		req := map[string]interface{}{"engine": "coalesce", "op": "batch", "table": table, "its": its}
		out, err := ctx.Model.Call(req)
		if err != nil {
			return nil, req, err
		}
		var mo modelOut
		if err := json.Unmarshal(out, &mo); err != nil {
			return nil, req, err
		}
		return &mo, req, nil
	}
	rawExact := func(a, b qres) bool {
		if a.Err != b.Err || a.Panic != b.Panic {
			return false
		}
		return (len(a.Raw) == 0 && len(b.Raw) == 0) || sameJSON(a.Raw, b.Raw)
	}
	for bi, qs := range assign {
		mo, req, err := callModel(qs)
		if err != nil {
			return err
		}
		b := batches[bi]
		if b.HasUnion {
			unionOK := sameJSON(mo.Union, b.Union)
			if !exactOrder {
				x := append([]string(nil), mo.Union...)
				y := append([]string(nil), b.Union...)
				sort.Strings(x)
				sort.Strings(y)
				unionOK = sameJSON(x, y)
			}
			if !unionOK || mo.Mem != b.Mem {
				fail("model-vs-impl", "field union / includeMemStore of the shared scan differs", qs[0],
					map[string]interface{}{"union": b.Union, "mem": b.Mem}, map[string]interface{}{"union": mo.Union, "mem": mo.Mem, "request": req}, false, "")
				return nil
			}
			e.hit("union-checked")
		}
		for pos, i := range qs {
			q := &c.Queries[i]
			if q.Kind != "raw" || q.Deadline == "short" {
				continue
			}
			want := mo.result(pos)
			if !rawExact(conc[i], want) {
				fail("model-vs-impl", "raw query in a batch: rows handed to the callback / error differ from the model", i,
					conc[i], map[string]interface{}{"result": want, "request": req}, false, "")
				return nil
			}
			e.hit("model:batch-result-checked")
		}
	}
	for _, i := range scanning {
		q := &c.Queries[i]
		if q.Kind != "raw" || q.Deadline == "short" {
			continue
		}
		mo, req, err := callModel([]int{i})
		if err != nil {
			return err
		}
		want := mo.result(0)
		if !rawExact(solo[i], want) {
			fail("model-vs-impl", "raw query alone: rows handed to the callback / error differ from the model", i,
				solo[i], map[string]interface{}{"result": want, "request": req}, false, "")
			return nil
		}
	}
	return nil
}

func rawKeyVals(rows []dbk.RawRow, d *ids) []rawRow {
	out := []rawRow{}
	for _, r := range rows {
		row := rawRow{Key: dbk.KeyString(r.Key)}
		for _, c := range r.Cols {
			row.Vals = append(row.Vals, d.of(c))
		}
		out = append(out, row)
	}
	return out
}

func bucket(n int) string {
	switch {
	case n == 0:
		return "0"
	case n == 1:
		return "1"
	case n <= 4:
		return "2-4"
	case n <= 10:
		return "5-10"
	case n <= 25:
		return "11-25"
	}
	return "26+"
}
