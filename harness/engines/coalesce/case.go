package coalesce

import (
	"fmt"
	"strings"
	"time"

	"zvh/dbk"
	"zvh/gen"
	"zvh/hk"
)

// Query is one query of a batch.
type Query struct {
	Kind     string `json:"kind"`               // "raw" (VerifIterate) | "sql" (db.Query(...).Iterate)
	Fields   []int  `json:"fields,omitempty"`   // raw: indexes into the table's fields (0 = _points), -1-k = foreign field k; empty = nil outFields (all table fields)
	SQL      string `json:"sql,omitempty"`      // sql: text, the table is written as {T}
	Mem      bool   `json:"mem"`                // includeMemStore
	Deadline string `json:"deadline,omitempty"` // "" | "expired" | "far" | "short"
	ShortUs  int    `json:"short_us,omitempty"` // short: deadline = now + ShortUs microseconds
	Consumer string `json:"consumer"`           // collect | stopAt | errAt
	K        int    `json:"k,omitempty"`        // stopAt / errAt: the K-th (non-blank) row
	Group    int    `json:"group"`              // arrival group: group g is released g*(interval+slack) after group 0
}

// Foreign is a field that is NOT a field of the table (possibly carrying the name of one).
type Foreign struct {
	Name string    `json:"name"`
	Node *gen.Node `json:"node"`
}

// Case is the self-contained, replayable form of one case of this engine.
type Case struct {
	Comment string       `json:"comment,omitempty"`
	Schema  *dbk.Schema  `json:"schema"`
	Points  []dbk.Point  `json:"points"`
	Flush   []int        `json:"flush"` // force a flush after this many points were inserted
	Foreign []Foreign    `json:"foreign,omitempty"`
	// Alter (optional): after AlterAfter points the table is altered to this schema (same
	// table name and stream); query field indexes refer to the altered table.  The model tie
	// is skipped for such cases (which columns a file row structurally has is M-STORE's
	// business), the property oracle is not.
	Alter      *dbk.Schema `json:"alter,omitempty"`
	AlterAfter int         `json:"alter_after,omitempty"`
	Queries []Query      `json:"queries"`
}

var dimD = []interface{}{"x", "x", "y", nil}
var dimG = []interface{}{"1", "2", nil}
var dimN = []interface{}{"1", "2", "3", "4", "5", nil}

// genPoint generates a point whose JSON form round-trips (string dims, float64 values).
func genPoint(r *hk.Rng, ts time.Time) dbk.Point {
	p := dbk.Point{TS: ts, Dims: map[string]interface{}{}, Vals: map[string]interface{}{}}
	if d := hk.Pick(r, dimD); d != nil {
		p.Dims["d"] = d
	}
	if g := hk.Pick(r, dimG); g != nil {
		p.Dims["g"] = g
	}
	if n := hk.Pick(r, dimN); n != nil {
		p.Dims["n"] = n
	}
	for _, f := range []string{"a", "b", "c"} {
		if !r.Chance(4, 5) {
			continue
		}
		if r.Chance(1, 6) {
			p.Vals[f] = float64(r.Range(-4, 12)) / 2
		} else {
			p.Vals[f] = float64(r.Range(-3, 9))
		}
	}
	return p
}

func shuffle(r *hk.Rng, xs []int) {
	for i := len(xs) - 1; i > 0; i-- {
		j := r.Intn(i + 1)
		xs[i], xs[j] = xs[j], xs[i]
	}
}

func genSQL(r *hk.Rng, s *dbk.Schema) string {
	names := []string{"_points"}
	for _, f := range s.Fields {
		names = append(names, f.Name)
	}
	var sel []string
	if r.Chance(1, 3) {
		sel = []string{"*"}
	} else {
		idx := make([]int, len(names))
		for i := range idx {
			idx[i] = i
		}
		shuffle(r, idx)
		k := r.Range(1, len(names))
		for _, i := range idx[:k] {
			sel = append(sel, names[i])
		}
	}
	q := "SELECT " + strings.Join(sel, ", ") + " FROM {T}"
	if r.Chance(1, 4) {
		k := r.Range(1, 8)
		q += fmt.Sprintf(" ASOF '-%v'", time.Duration(k)*s.Res)
		if r.Chance(1, 2) && k > 1 {
			q += fmt.Sprintf(" UNTIL '-%v'", time.Duration(r.Range(1, k-1))*s.Res)
		}
	}
	switch r.Intn(6) {
	case 0:
		q += " GROUP BY d"
	case 1:
		q += " GROUP BY d, g"
	case 2:
		q += fmt.Sprintf(" GROUP BY period(%v)", 2*s.Res)
	case 3:
		q += " GROUP BY _"
	}
	if sel[0] != "*" && r.Chance(1, 3) {
		q += " ORDER BY " + hk.Pick(r, sel)
		if r.Bool() {
			q += " DESC"
		}
	} else if r.Chance(1, 6) {
		q += " ORDER BY _time"
	}
	if r.Chance(1, 2) {
		q += fmt.Sprintf(" LIMIT %d", r.Range(1, 5))
	}
	return q
}

// noConstAggregates replaces the constant argument of an aggregate (SUM(10), AVG(1)) by a
// field: for such fields expr.IsConstant() is true and encoding.Sequence.ValueAtTime calls
// Get(nil), which panics on the database's own iteration goroutine and takes the process
// down (zenodb defect outside C17, reported separately) — flatten would hit it on SELECT *.
func noConstAggregates(n *gen.Node) {
	if n == nil {
		return
	}
	if (n.Kind == "agg" || n.Kind == "avg") && len(n.Kids) > 0 && n.Kids[0].Kind == "const" {
		n.Kids[0] = &gen.Node{Kind: "field", Name: "a"}
	}
	for _, k := range n.Kids {
		noConstAggregates(k)
	}
}

func genCase(r *hk.Rng, idx uint64) *Case {
	c := &Case{Schema: dbk.GenSchema(r, fmt.Sprintf("t%d", idx))}
	s := c.Schema
	for _, f := range s.Fields {
		noConstAggregates(f.Node)
	}
	// points: a filestore / memstore split with merged and memstore-only keys
	n := r.Range(4, 40)
	cur := dbk.Base
	for i := 0; i < n; i++ {
		switch r.Intn(8) {
		case 0:
			cur = cur.Add(time.Duration(r.Range(1, 3)) * s.Res)
		case 1:
			// late point
			c.Points = append(c.Points, genPoint(r, cur.Add(-time.Duration(r.Range(0, 2))*s.Res)))
			continue
		default:
			cur = cur.Add(time.Duration(r.Range(0, int(s.Res/time.Millisecond)/4)) * time.Millisecond)
		}
		c.Points = append(c.Points, genPoint(r, cur))
	}
	switch r.Intn(6) {
	case 0: // everything in the memstore
	case 1: // everything on disk
		c.Flush = []int{n}
	case 2: // two flushes
		a := r.Range(1, n-1)
		c.Flush = []int{a, r.Range(a, n)}
	default:
		c.Flush = []int{r.Range(1, n-1)}
	}
	all := s.AllFields()
	if r.Chance(1, 3) {
		// a field that is not in the table but has the NAME of one of its fields
		like := all[r.Intn(len(all))]
		c.Foreign = append(c.Foreign, Foreign{Name: like.Name,
			Node: &gen.Node{Kind: "agg", Name: "MAX", Kids: []*gen.Node{{Kind: "field", Name: "zz"}}}})
	}
	mixedMem := r.Chance(1, 4)
	staggered := r.Chance(1, 5)
	nq := r.Range(2, 8)
	for i := 0; i < nq; i++ {
		q := Query{Mem: true, Consumer: "collect"}
		if mixedMem {
			q.Mem = r.Bool()
		}
		if staggered {
			q.Group = r.Intn(2)
		}
		foreignOnly := false
		if r.Chance(11, 20) {
			q.Kind = "raw"
			if !r.Chance(1, 6) {
				idxs := make([]int, len(all))
				for j := range idxs {
					idxs[j] = j
				}
				shuffle(r, idxs)
				q.Fields = append([]int(nil), idxs[:r.Range(1, len(all))]...)
			}
			if len(q.Fields) > 0 && r.Chance(1, 8) {
				// a field requested twice: indexOfOutField fills the first position only, the
				// second stays nil — unless value arrays leak between iterations
				q.Fields = append(q.Fields, q.Fields[r.Intn(len(q.Fields))])
			}
			if len(c.Foreign) > 0 && len(q.Fields) > 0 && r.Chance(1, 3) {
				if r.Chance(1, 3) {
					q.Fields = []int{-1}
					foreignOnly = true
				} else {
					pos := r.Intn(len(q.Fields) + 1)
					q.Fields = append(q.Fields[:pos:pos], append([]int{-1}, q.Fields[pos:]...)...)
				}
			}
		} else {
			q.Kind = "sql"
			q.SQL = genSQL(r, s)
		}
		if !foreignOnly {
			switch r.Intn(10) {
			case 0:
				q.Deadline = "expired"
			case 1:
				q.Deadline = "far"
			case 2:
				q.Deadline = "short"
				q.ShortUs = hk.Pick(r, []int{1, 50, 300, 2000})
			}
			switch r.Intn(5) {
			case 0:
				q.Consumer = "stopAt"
				q.K = r.Range(1, 4)
			case 1:
				q.Consumer = "errAt"
				q.K = r.Range(1, 4)
			}
		}
		c.Queries = append(c.Queries, q)
	}
	return c
}
