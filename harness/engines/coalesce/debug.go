package coalesce

import (
	"encoding/json"
	"os"
)

// debugDump writes the per-query results of a case when ZVH_C17_DUMP is set.
func debugDump(c *Case, solo []qres, conc map[int]qres, batches []obsBatch) {
	path := os.Getenv("ZVH_C17_DUMP")
	if path == "" {
		return
	}
	out := map[string]interface{}{"queries": c.Queries, "solo": solo, "concurrent": conc, "batches": batches}
	b, _ := json.MarshalIndent(out, "", " ")
	os.WriteFile(path, b, 0o644)
}

// dumpCase writes a generated case as a replayable corpus file when ZVH_C17_CASES names a directory.
func dumpCase(c *Case, idx uint64) {
	dir := os.Getenv("ZVH_C17_CASES")
	if dir == "" {
		return
	}
	b, _ := json.MarshalIndent(c, "", " ")
	os.WriteFile(dir+"/case-"+itoa(idx)+".json", b, 0o644)
}

func itoa(n uint64) string {
	if n == 0 {
		return "0"
	}
	var b []byte
	for n > 0 {
		b = append([]byte{byte('0' + n%10)}, b...)
		n /= 10
	}
	return string(b)
}
