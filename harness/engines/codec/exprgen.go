package codec

// Generator of real expr.Expr trees over every registered type.  Half of the trees come
// from the shared gen.GenExpr (aggregates, AVG/WAVG, arithmetic, conditions, IF, SHIFT,
// unary, BOUNDED); the rest is built here so that PERCENTILE, PERCENTILEOPT, IF over goexpr
// conditions, SHIFT, unary math and BOUNDED appear at every position the constructors allow.

import (
	"time"

	"github.com/getlantern/zenodb/expr"

	"zvh/gen"
	"zvh/hk"
)

var fields = []string{"a", "b", "c"}

// tree is a generated expression plus the stateful sub-expressions it was built from
// (candidates for SubMergers).
type tree struct {
	e    expr.Expr
	subs []expr.Expr
}

func nodeLeaves(n *gen.Node, into *[]expr.Expr) {
	if n.Kind == "agg" || n.Kind == "avg" {
		*into = append(*into, n.Build())
		return
	}
	for _, k := range n.Kids {
		nodeLeaves(k, into)
	}
}

func genArg(r *hk.Rng) expr.Expr {
	switch r.Intn(8) {
	case 0:
		return expr.CONST(hk.Pick(r, []float64{0, 1, 2, -1, 0.5, 10}))
	case 1:
		lo := float64(r.Range(-2, 2))
		e := expr.BOUNDED(expr.FIELD(hk.Pick(r, fields)), lo, lo+float64(r.Range(0, 8)))
		if r.Chance(1, 4) {
			// BOUNDED directly around BOUNDED (what PERCENTILE(BOUNDED(x,…),…) builds, too)
			e = expr.BOUNDED(e, lo-1, lo+float64(r.Range(2, 12)))
		}
		return e
	}
	return expr.FIELD(hk.Pick(r, fields))
}

func genPtile(r *hk.Rng) expr.Expr {
	var value interface{}
	switch r.Intn(6) {
	case 0:
		value = expr.SUM(expr.FIELD(hk.Pick(r, fields)))
	case 3:
		value = expr.BOUNDED(expr.FIELD(hk.Pick(r, fields)), 1, 9)
	case 1:
		// DeAggregate() of a binary expression sets DeAggregated on the copy
		value = expr.ADD(expr.SUM(expr.FIELD("a")), expr.SUM(expr.FIELD("b")))
	case 2:
		value = expr.MULT(expr.FIELD(hk.Pick(r, fields)), expr.CONST(2))
	default:
		value = expr.FIELD(hk.Pick(r, fields))
	}
	var pct interface{} = expr.CONST(hk.Pick(r, []float64{0, 50, 90, 99, 100}))
	if r.Chance(1, 5) {
		pct = expr.FIELD("p")
	}
	min := float64(r.Range(0, 2))
	max := min + float64(hk.Pick(r, []int{4, 10, 20, 100}))
	return expr.PERCENTILE(value, pct, min, max, r.Range(0, 2))
}

func genLeaf(r *hk.Rng, t *tree) expr.Expr {
	var e expr.Expr
	switch r.Intn(10) {
	case 0, 1:
		if r.Bool() {
			e = expr.AVG(genArg(r))
		} else {
			e = expr.WAVG(genArg(r), genArg(r))
		}
	case 2:
		e = genPtile(r)
	case 3:
		p := genPtile(r)
		t.subs = append(t.subs, p)
		e = expr.PERCENTILEOPT(p, expr.CONST(hk.Pick(r, []float64{5, 50, 95})))
		if r.Chance(1, 3) {
			// PERCENTILEOPT of a PERCENTILEOPT re-wraps the embedded ptile
			e = expr.PERCENTILEOPT(e, expr.CONST(75))
		}
	default:
		e = aggCtors[hk.Pick(r, []string{"SUM", "MIN", "MAX", "COUNT"})](genArg(r))
	}
	t.subs = append(t.subs, e)
	return e
}

var binOpsList = []string{"+", "-", "*", "/", "<", "<=", "=", "<>", ">=", ">", "AND", "OR"}

func genTree(r *hk.Rng, t *tree, depth int, top bool) expr.Expr {
	if depth <= 0 {
		return genLeaf(r, t)
	}
	switch r.Intn(12) {
	case 0, 1, 2:
		return genLeaf(r, t)
	case 3, 4, 5:
		l := genTree(r, t, depth-1, false)
		var rt expr.Expr
		if r.Chance(1, 5) {
			rt = expr.CONST(hk.Pick(r, []float64{0, 1, 2, 3, -1, 0.5}))
		} else {
			rt = genTree(r, t, depth-1, false)
		}
		return binCtors[hk.Pick(r, binOpsList)](l, rt)
	case 6, 7:
		e := expr.IF(gen.Conds[r.Intn(len(gen.Conds))], genTree(r, t, depth-1, false))
		t.subs = append(t.subs, e)
		return e
	case 8:
		e := expr.SHIFT(genTree(r, t, depth-1, false), -time.Duration(r.Range(0, 3))*time.Second)
		if r.Chance(1, 3) {
			t.subs = append(t.subs, e)
		}
		return e
	case 9:
		e, err := expr.UnaryMath(hk.Pick(r, unaryNames), genTree(r, t, depth-1, false))
		if err != nil {
			panic(err)
		}
		return e
	case 10:
		if top {
			lo := float64(r.Range(-3, 3))
			return expr.BOUNDED(genLeaf(r, t), lo, lo+float64(r.Range(0, 10)))
		}
	}
	return genLeaf(r, t)
}

// genExpr draws one expression tree.
func genExpr(r *hk.Rng) *tree {
	t := &tree{}
	if r.Bool() {
		n := gen.GenExpr(r, gen.ExprOpts{Fields: fields, MaxDepth: r.Range(0, 3), Res: time.Second})
		t.e = n.Build()
		nodeLeaves(n, &t.subs)
		return t
	}
	t.e = genTree(r, t, r.Range(0, 3), true)
	return t
}
