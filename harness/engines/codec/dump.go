package codec

// Reflection dump of a real expr.Expr into the model's Go-level object (GEx) JSON, and a
// small msgpack reader that turns the real wire bytes into the model's Wire JSON.

import (
	"encoding/binary"
	"encoding/hex"
	"fmt"
	"math"
	"reflect"
	"unsafe"

	"github.com/getlantern/goexpr"
	"github.com/getlantern/zenodb/expr"

	"zvh/gen"
	"zvh/hk"
)

// funcWord returns the func value word (pointer to the closure object) stored in an
// addressable struct field of func type; nil for a nil func.  Two fields hold the same
// closure iff the words are equal (reflect's Pointer() only gives the code pointer, which
// all registerCond closures share).
func funcWord(f reflect.Value) unsafe.Pointer {
	return *(*unsafe.Pointer)(unsafe.Pointer(f.UnsafeAddr()))
}

// slot tables: closure word -> registry key, per func field
var slotTables = map[string]map[unsafe.Pointer]string{
	"update": {}, "merge": {}, "calc": {}, "fn": {},
}

var aggCtors = map[string]func(interface{}) expr.Expr{"SUM": expr.SUM, "MIN": expr.MIN, "MAX": expr.MAX, "COUNT": expr.COUNT}
var binCtors = map[string]func(interface{}, interface{}) expr.Expr{
	"+": expr.ADD, "-": expr.SUB, "*": expr.MULT, "/": expr.DIV,
	"<": expr.LT, "<=": expr.LTE, "=": expr.EQ, "<>": expr.NEQ, ">=": expr.GTE, ">": expr.GT,
	"AND": expr.AND, "OR": expr.OR,
}
var unaryNames = []string{"LN", "LOG2", "LOG10"}

func init() {
	for name, ctor := range aggCtors {
		v := reflect.ValueOf(ctor("x")).Elem()
		slotTables["update"][funcWord(v.FieldByName("update"))] = name
		slotTables["merge"][funcWord(v.FieldByName("merge"))] = name
	}
	for op, ctor := range binCtors {
		v := reflect.ValueOf(ctor("x", "y")).Elem()
		slotTables["calc"][funcWord(v.FieldByName("calc"))] = op
	}
	for _, name := range unaryNames {
		e, err := expr.UnaryMath(name, "x")
		if err != nil {
			panic(err)
		}
		v := reflect.ValueOf(e).Elem()
		slotTables["fn"][funcWord(v.FieldByName("fn"))] = name
	}
}

func slotOf(v reflect.Value, field string) interface{} {
	f := v.FieldByName(field)
	if !f.IsValid() {
		return "?no-such-field"
	}
	if f.IsNil() {
		return nil
	}
	if name, ok := slotTables[field][funcWord(f)]; ok {
		return name
	}
	return "?unregistered-closure"
}

func condID(v reflect.Value) int {
	if v.IsNil() {
		return 998
	}
	c, ok := v.Interface().(goexpr.Expr)
	if !ok {
		return 997
	}
	s := c.String()
	for i, g := range gen.Conds {
		if g.String() == s {
			return i
		}
	}
	return 999
}

// dump renders the object graph of an expression as the model's GEx JSON.
func dump(e expr.Expr) map[string]interface{} {
	if e == nil {
		return map[string]interface{}{"k": "nil"}
	}
	return dumpV(reflect.ValueOf(e))
}

func dumpV(v reflect.Value) map[string]interface{} {
	for v.Kind() == reflect.Interface || v.Kind() == reflect.Ptr {
		if v.IsNil() {
			return map[string]interface{}{"k": "nil"}
		}
		v = v.Elem()
	}
	if v.Kind() != reflect.Struct {
		return map[string]interface{}{"k": "?" + v.Kind().String()}
	}
	fl := func(name string) string { return hk.RatOfFloat(v.FieldByName(name).Float()) }
	in := func(name string) string { return fmt.Sprint(v.FieldByName(name).Int()) }
	wd := func(name string) interface{} {
		w := v.FieldByName(name).Int()
		if w < 0 {
			return fmt.Sprintf("?negative-width %d", w)
		}
		return w
	}
	sub := func(name string) map[string]interface{} { return dumpV(v.FieldByName(name)) }
	switch v.Type().Name() {
	case "field":
		return map[string]interface{}{"k": "field", "n": v.FieldByName("Name").String()}
	case "constant":
		return map[string]interface{}{"k": "const", "v": fl("Value")}
	case "bounded":
		return map[string]interface{}{"k": "bounded", "w": sub("wrapped"), "lo": fl("min"), "hi": fl("max")}
	case "aggregate":
		return map[string]interface{}{"k": "agg", "name": v.FieldByName("Name").String(), "w": sub("Wrapped"),
			"update": slotOf(v, "update"), "merge": slotOf(v, "merge")}
	case "ifExpr":
		return map[string]interface{}{"k": "if", "c": condID(v.FieldByName("Cond")), "w": sub("Wrapped"), "width": wd("Width")}
	case "avg":
		return map[string]interface{}{"k": "avg", "v": sub("Value"), "w": sub("Weight")}
	case "binaryExpr":
		return map[string]interface{}{"k": "bin", "op": v.FieldByName("Op").String(), "l": sub("Left"), "r": sub("Right"),
			"deagg": v.FieldByName("DeAggregated").Bool(), "calc": slotOf(v, "calc")}
	case "shift":
		return map[string]interface{}{"k": "shift", "w": sub("Wrapped"), "off": in("Offset"), "width": wd("Width")}
	case "unaryMathExpr":
		return map[string]interface{}{"k": "unary", "name": v.FieldByName("Name").String(), "fn": slotOf(v, "fn"),
			"w": sub("Wrapped"), "width": wd("Width")}
	case "ptile":
		return map[string]interface{}{"k": "ptile", "v": sub("Value"), "p": sub("Percentile"), "min": in("Min"), "max": in("Max"),
			"prec": in("Precision"), "hdr": in("HDRPrecision"), "width": wd("Width")}
	case "ptileOptimized":
		return map[string]interface{}{"k": "ptileopt", "emb": dumpV(v.FieldByName("ptile")), "wrapped": sub("Wrapped"), "p": sub("Percentile")}
	}
	return map[string]interface{}{"k": "?" + v.Type().Name()}
}

// kinds lists the node kinds occurring in a dump (for the input-distribution histogram).
func kinds(d map[string]interface{}, into map[string]bool) {
	if k, ok := d["k"].(string); ok {
		into[k] = true
		if k == "bin" && d["deagg"] == true {
			into["bin-deaggregated"] = true
		}
	}
	for _, v := range d {
		if m, ok := v.(map[string]interface{}); ok {
			kinds(m, into)
		}
	}
}

// ---------------------------------------------------------------- msgpack reader

type mpReader struct {
	b   []byte
	pos int
	err error
}

// condRaw maps the raw ext bytes of a gen.Conds entry to its index.
var condRaw = map[string]int{}

func (m *mpReader) need(n int) bool {
	if m.err != nil {
		return false
	}
	if m.pos+n > len(m.b) {
		m.err = fmt.Errorf("msgpack: truncated at %d (+%d of %d)", m.pos, n, len(m.b))
		return false
	}
	return true
}

func (m *mpReader) u(n int) uint64 {
	if !m.need(n) {
		return 0
	}
	var x uint64
	for i := 0; i < n; i++ {
		x = x<<8 | uint64(m.b[m.pos+i])
	}
	m.pos += n
	return x
}

func (m *mpReader) bytes(n int) []byte {
	if !m.need(n) {
		return nil
	}
	out := m.b[m.pos : m.pos+n]
	m.pos += n
	return out
}

func wInt(i int64) interface{}   { return map[string]interface{}{"i": fmt.Sprint(i)} }
func wUint(i uint64) interface{} { return map[string]interface{}{"i": fmt.Sprint(i)} }

func (m *mpReader) mapN(n int) interface{} {
	kvs := []interface{}{}
	for i := 0; i < n && m.err == nil; i++ {
		k := m.value()
		v := m.value()
		ks := "?"
		if km, ok := k.(map[string]interface{}); ok {
			if s, ok := km["s"].(string); ok {
				ks = s
			}
		}
		kvs = append(kvs, []interface{}{ks, v})
	}
	return map[string]interface{}{"map": kvs}
}

func (m *mpReader) arrN(n int) interface{} {
	vs := []interface{}{}
	for i := 0; i < n && m.err == nil; i++ {
		vs = append(vs, m.value())
	}
	return map[string]interface{}{"arr": vs}
}

func (m *mpReader) extN(n int, start int) interface{} {
	id := int(int8(m.u(1)))
	if !m.need(n) {
		return nil
	}
	end := m.pos + n
	if id >= 70 {
		raw := string(m.b[start:end])
		m.pos = end
		if c, ok := condRaw[raw]; ok {
			return map[string]interface{}{"cond": c}
		}
		return map[string]interface{}{"extraw": hex.EncodeToString([]byte(raw))}
	}
	sub := &mpReader{b: m.b[:end], pos: m.pos}
	vals := []interface{}{}
	for sub.pos < end && sub.err == nil {
		vals = append(vals, sub.value())
	}
	if sub.err != nil {
		m.err = sub.err
	}
	m.pos = end
	var body interface{}
	if len(vals) == 1 {
		if mm, ok := vals[0].(map[string]interface{}); ok && mm["map"] != nil {
			body = mm
		}
	}
	if body == nil {
		body = map[string]interface{}{"tup": vals}
	}
	return map[string]interface{}{"ext": id, "body": body}
}

func (m *mpReader) value() interface{} {
	start := m.pos
	if !m.need(1) {
		return nil
	}
	c := m.b[m.pos]
	m.pos++
	switch {
	case c <= 0x7f:
		return wUint(uint64(c))
	case c >= 0xe0:
		return wInt(int64(int8(c)))
	case c >= 0x80 && c <= 0x8f:
		return m.mapN(int(c & 0x0f))
	case c >= 0x90 && c <= 0x9f:
		return m.arrN(int(c & 0x0f))
	case c >= 0xa0 && c <= 0xbf:
		return map[string]interface{}{"s": string(m.bytes(int(c & 0x1f)))}
	}
	switch c {
	case 0xc0:
		return nil
	case 0xc2:
		return map[string]interface{}{"b": false}
	case 0xc3:
		return map[string]interface{}{"b": true}
	case 0xc4:
		return map[string]interface{}{"bin": hex.EncodeToString(m.bytes(int(m.u(1))))}
	case 0xc5:
		return map[string]interface{}{"bin": hex.EncodeToString(m.bytes(int(m.u(2))))}
	case 0xc6:
		return map[string]interface{}{"bin": hex.EncodeToString(m.bytes(int(m.u(4))))}
	case 0xc7:
		return m.extN(int(m.u(1)), start)
	case 0xc8:
		return m.extN(int(m.u(2)), start)
	case 0xc9:
		return m.extN(int(m.u(4)), start)
	case 0xca:
		return map[string]interface{}{"f": hk.RatOfFloat(float64(math.Float32frombits(uint32(m.u(4)))))}
	case 0xcb:
		return map[string]interface{}{"f": hk.RatOfFloat(math.Float64frombits(m.u(8)))}
	case 0xcc:
		return wUint(m.u(1))
	case 0xcd:
		return wUint(m.u(2))
	case 0xce:
		return wUint(m.u(4))
	case 0xcf:
		return wUint(m.u(8))
	case 0xd0:
		return wInt(int64(int8(m.u(1))))
	case 0xd1:
		return wInt(int64(int16(m.u(2))))
	case 0xd2:
		return wInt(int64(int32(m.u(4))))
	case 0xd3:
		return wInt(int64(m.u(8)))
	case 0xd4:
		return m.extN(1, start)
	case 0xd5:
		return m.extN(2, start)
	case 0xd6:
		return m.extN(4, start)
	case 0xd7:
		return m.extN(8, start)
	case 0xd8:
		return m.extN(16, start)
	case 0xd9:
		return map[string]interface{}{"s": string(m.bytes(int(m.u(1))))}
	case 0xda:
		return map[string]interface{}{"s": string(m.bytes(int(m.u(2))))}
	case 0xdb:
		return map[string]interface{}{"s": string(m.bytes(int(m.u(4))))}
	case 0xdc:
		return m.arrN(int(m.u(2)))
	case 0xdd:
		return m.arrN(int(m.u(4)))
	case 0xde:
		return m.mapN(int(m.u(2)))
	case 0xdf:
		return m.mapN(int(m.u(4)))
	}
	m.err = fmt.Errorf("msgpack: unknown code %x at %d", c, start)
	return nil
}

// parseWire reads exactly one msgpack value.
func parseWire(b []byte) (interface{}, error) {
	m := &mpReader{b: b}
	v := m.value()
	if m.err == nil && m.pos != len(b) {
		m.err = fmt.Errorf("msgpack: %d trailing bytes", len(b)-m.pos)
	}
	return v, m.err
}

var _ = binary.BigEndian
