package codec

// Property oracle on the implementation alone: an expression and its decoded copy are
// indistinguishable through the Expr interface — printed form, widths, shift, and the
// bytes/values produced by Update, Merge, Get and the SubMergers on random states.

import (
	"bytes"
	"fmt"
	"math"
	"time"

	"github.com/getlantern/zenodb/expr"

	"zvh/gen"
	"zvh/hk"
)

var pointFields = []string{"a", "b", "c", "p"}

func genPoints(r *hk.Rng, n int) []gen.Point {
	pts := make([]gen.Point, n)
	for i := range pts {
		pts[i] = gen.GenPoint(r, pointFields)
		if r.Chance(1, 8) {
			pts[i].Dims = nil // metadata == nil: IF includes everything
		}
	}
	return pts
}

type updRes struct {
	remain  int
	value   float64
	updated bool
}

// accumulate applies the points to a zeroed buffer and records what each Update returned.
func accumulate(e expr.Expr, w int, pts []gen.Point) ([]byte, []updRes) {
	b := make([]byte, w)
	out := make([]updRes, 0, len(pts))
	for _, p := range pts {
		var rem []byte
		var v float64
		var u bool
		if p.Dims == nil {
			rem, v, u = e.Update(b, p.Params(), nil)
		} else {
			rem, v, u = e.Update(b, p.Params(), p.Meta())
		}
		out = append(out, updRes{len(rem), v, u})
	}
	return b, out
}

// differences runs every observer on both objects and returns the first difference
// ("" if none).  A panic on one side only is a difference; a panic on both sides with the
// same message is not (the original cannot do it either).
func differences(r *hk.Rng, orig, dec expr.Expr, subs []expr.Expr, hit func(string)) string {
	if dec == nil {
		return "decoded expression is nil"
	}
	var so, sd string
	po := hk.Recover(func() { so = orig.String() })
	pd := hk.Recover(func() { sd = dec.String() })
	if po != nil || pd != nil {
		if fmt.Sprint(po) != fmt.Sprint(pd) {
			return fmt.Sprintf("String() panics differ: %v vs %v", po, pd)
		}
		hit("both-panic:String")
		return ""
	}
	if so != sd {
		return fmt.Sprintf("String(): %q vs %q", so, sd)
	}
	wo, wd := orig.EncodedWidth(), dec.EncodedWidth()
	if wo != wd {
		return fmt.Sprintf("EncodedWidth(): %d vs %d", wo, wd)
	}
	if orig.Shift() != dec.Shift() {
		return fmt.Sprintf("Shift(): %v vs %v", orig.Shift(), dec.Shift())
	}
	if orig.IsConstant() != dec.IsConstant() {
		return fmt.Sprintf("IsConstant(): %v vs %v", orig.IsConstant(), dec.IsConstant())
	}
	var dao, dad string
	po = hk.Recover(func() { dao = orig.DeAggregate().String() })
	pd = hk.Recover(func() { dad = dec.DeAggregate().String() })
	if fmt.Sprint(po) != fmt.Sprint(pd) || dao != dad {
		return fmt.Sprintf("DeAggregate().String(): %q (%v) vs %q (%v)", dao, po, dad, pd)
	}

	w := wo
	ptsX := genPoints(r, r.Range(0, 6))
	ptsY := genPoints(r, r.Range(0, 6))

	var d string
	run := func(what string, fo, fd func() string) bool {
		var ro, rd string
		po := hk.Recover(func() { ro = fo() })
		pd := hk.Recover(func() { rd = fd() })
		if po != nil || pd != nil {
			if fmt.Sprint(po) != fmt.Sprint(pd) {
				d = fmt.Sprintf("%s: panics differ: original %v, decoded %v", what, po, pd)
				return false
			}
			hit("both-panic:" + what)
			return false
		}
		if ro != rd {
			d = fmt.Sprintf("%s: original %s, decoded %s", what, ro, rd)
			return false
		}
		return true
	}

	// Update on a zeroed buffer
	var xo, xd, yo, yd []byte
	upd := func(e expr.Expr, pts []gen.Point, keep *[]byte) func() string {
		return func() string {
			b, rs := accumulate(e, w, pts)
			*keep = b
			s := fmt.Sprintf("%x", b)
			for _, u := range rs {
				s += fmt.Sprintf(" (%d %x %v)", u.remain, math.Float64bits(u.value), u.updated)
			}
			return s
		}
	}
	if !run("Update", upd(orig, ptsX, &xo), upd(dec, ptsX, &xd)) {
		return d
	}
	if !run("Update", upd(orig, ptsY, &yo), upd(dec, ptsY, &yd)) {
		return d
	}
	// Merge of the two states
	var mo, md []byte
	mrg := func(e expr.Expr, x, y []byte, keep *[]byte) func() string {
		return func() string {
			b := make([]byte, w)
			rb, rx, ry := e.Merge(b, x, y)
			*keep = b
			return fmt.Sprintf("%x (%d %d %d)", b, len(rb), len(rx), len(ry))
		}
	}
	if !run("Merge", mrg(orig, xo, yo, &mo), mrg(dec, xd, yd, &md)) {
		return d
	}
	// Get on each state
	get := func(e expr.Expr, b []byte) func() string {
		return func() string {
			v, ok, rem := e.Get(b)
			if math.IsNaN(v) {
				return fmt.Sprintf("NaN %v %d", ok, len(rem))
			}
			return fmt.Sprintf("%x %v %d", math.Float64bits(v), ok, len(rem))
		}
	}
	for _, st := range [][2][]byte{{xo, xd}, {yo, yd}, {mo, md}, {make([]byte, w), make([]byte, w)}} {
		if !run("Get", get(orig, st[0]), get(dec, st[1])) {
			return d
		}
	}

	// SubMergers against the tree's own stateful parts, itself, and an unrelated expression
	cands := append([]expr.Expr{orig, expr.SUM(expr.FIELD("zz"))}, subs...)
	if len(cands) > 6 {
		cands = cands[:6]
	}
	var smo, smd []expr.SubMerge
	po = hk.Recover(func() { smo = orig.SubMergers(cands) })
	pd = hk.Recover(func() { smd = dec.SubMergers(cands) })
	if po != nil || pd != nil {
		if fmt.Sprint(po) != fmt.Sprint(pd) {
			return fmt.Sprintf("SubMergers: panics differ: original %v, decoded %v", po, pd)
		}
		hit("both-panic:SubMergers")
		return ""
	}
	if len(smo) != len(smd) {
		return fmt.Sprintf("SubMergers: %d vs %d entries", len(smo), len(smd))
	}
	for i := range smo {
		if (smo[i] == nil) != (smd[i] == nil) {
			return fmt.Sprintf("SubMergers[%d] for %v: nil-ness differs (original nil=%v)", i, cands[i], smo[i] == nil)
		}
		if smo[i] == nil {
			continue
		}
		hit("submerger-applied")
		sub := cands[i]
		sw := sub.EncodedWidth()
		// `other`: four periods of the sub-expression's state
		other := make([]byte, 0, 4*sw)
		for k := 0; k < 4; k++ {
			b, _ := accumulate(sub, sw, genPoints(r, r.Range(0, 3)))
			other = append(other, b...)
		}
		meta := gen.GenPoint(r, pointFields)
		apply := func(sm expr.SubMerge, start []byte) func() string {
			return func() string {
				data := append([]byte(nil), start...)
				oc := append([]byte(nil), other...)
				sm(data, oc, time.Second, meta.Meta())
				if !bytes.Equal(oc, other) {
					return fmt.Sprintf("%x other-modified", data)
				}
				return fmt.Sprintf("%x", data)
			}
		}
		if !run(fmt.Sprintf("SubMergers[%d]", i), apply(smo[i], xo), apply(smd[i], xd)) {
			return d
		}
	}
	return ""
}
