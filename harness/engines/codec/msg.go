package codec

// Mode msg: the gRPC message structs round-tripped through rpc.Codec and compared field by
// field after canonicalisation (nil and empty-but-non-nil slices / maps are DIFFERENT values,
// the unchanged codec keeps them apart and receivers rely on it; integers inside
// interface{} are compared by value, msgpack hands non-negative ones back as uint64 and
// negative ones as int64; times by instant; floats bit for bit with one NaN).

import (
	"bytes"
	"encoding/hex"
	"fmt"
	"math"
	"reflect"
	"sort"
	"strings"
	"time"

	"github.com/getlantern/bytemap"
	"github.com/getlantern/wal"
	"github.com/getlantern/zenodb/common"
	"github.com/getlantern/zenodb/core"
	"github.com/getlantern/zenodb/encoding"
	"github.com/getlantern/zenodb/expr"
	"github.com/getlantern/zenodb/rpc"

	"zvh/hk"
)

var timeT = reflect.TypeOf(time.Time{})
var exprT = reflect.TypeOf((*expr.Expr)(nil)).Elem()

func canonFloat(f float64) string {
	if math.IsNaN(f) {
		return "NaN"
	}
	return fmt.Sprintf("f%016x", math.Float64bits(f))
}

// canonV renders a value for comparison; drift notes type changes inside interface{}.
func canonV(v reflect.Value, inIface bool) interface{} {
	if !v.IsValid() {
		return nil
	}
	if v.Type() == timeT {
		t := v.Interface().(time.Time)
		return map[string]interface{}{"unix": fmt.Sprint(t.Unix()), "ns": t.Nanosecond(), "zero": t.IsZero()}
	}
	switch v.Kind() {
	case reflect.Interface:
		if v.IsNil() {
			return nil
		}
		if v.Type().Implements(exprT) || v.Elem().Type().Implements(exprT) {
			if e, ok := v.Interface().(expr.Expr); ok {
				// DeAggregated is not restored (known, outside the observers; see mode expr)
				return map[string]interface{}{"expr": e.String(), "g": stripDeagg(dump(e))}
			}
		}
		return canonV(v.Elem(), true)
	case reflect.Ptr:
		if v.IsNil() {
			return nil
		}
		return canonV(v.Elem(), inIface)
	case reflect.Struct:
		out := map[string]interface{}{}
		t := v.Type()
		for i := 0; i < t.NumField(); i++ {
			if t.Field(i).PkgPath != "" {
				continue // unexported: not transported (C20.msg_fields_cover classifies them)
			}
			out[t.Field(i).Name] = canonV(v.Field(i), false)
		}
		return out
	case reflect.Slice:
		// nil and empty-but-non-nil are different values: receivers tell message kinds
		// apart by `x != nil` (queryCluster: result.key, result.fields)
		if v.IsNil() {
			return "nil-slice"
		}
		if v.Type().Elem().Kind() == reflect.Uint8 {
			if v.Len() > 512 {
				return "x(" + hashBytes(v.Bytes()) + ")" // large payloads by length and hash
			}
			return "x" + hex.EncodeToString(v.Bytes())
		}
		if v.Type().Elem().Kind() == reflect.Float64 && v.Len() > 64 {
			h := uint64(1469598103934665603)
			for i := 0; i < v.Len(); i++ {
				h = (h ^ math.Float64bits(v.Index(i).Float())) * 1099511628211
			}
			return fmt.Sprintf("floats(%d #%x)", v.Len(), h)
		}
		out := []interface{}{}
		for i := 0; i < v.Len(); i++ {
			out = append(out, canonV(v.Index(i), inIface))
		}
		return out
	case reflect.Map:
		if v.IsNil() {
			return "nil-map"
		}
		type kv struct {
			k string
			v interface{}
		}
		var kvs []kv
		for _, k := range v.MapKeys() {
			kvs = append(kvs, kv{fmt.Sprint(canonV(k, true)), canonV(v.MapIndex(k), inIface)})
		}
		sort.Slice(kvs, func(i, j int) bool { return kvs[i].k < kvs[j].k })
		out := []interface{}{}
		for _, e := range kvs {
			out = append(out, []interface{}{e.k, e.v})
		}
		return out
	case reflect.Int, reflect.Int8, reflect.Int16, reflect.Int32, reflect.Int64:
		return fmt.Sprintf("i%d", v.Int())
	case reflect.Uint, reflect.Uint8, reflect.Uint16, reflect.Uint32, reflect.Uint64:
		return fmt.Sprintf("i%d", v.Uint())
	case reflect.Float32, reflect.Float64:
		return canonFloat(v.Float())
	case reflect.Bool:
		return v.Bool()
	case reflect.String:
		return "s" + v.String()
	}
	return fmt.Sprintf("?%s", v.Kind())
}

func stripDeagg(d map[string]interface{}) map[string]interface{} {
	delete(d, "deagg")
	for _, v := range d {
		if m, ok := v.(map[string]interface{}); ok {
			stripDeagg(m)
		}
	}
	return d
}

func canon(x interface{}) interface{} { return canonV(reflect.ValueOf(x), false) }

// scalar values of every type bytemap supports (and that an interface{} may carry)
func genScalar(r *hk.Rng, forBytemap bool) interface{} {
	small := int64(r.Range(-3, 300))
	switch r.Intn(17) {
	case 0:
		return hk.Pick(r, []string{"", "x", "y", "a longer string value", "üñí", "1"})
	case 1:
		return r.Bool()
	case 2:
		return byte(r.Intn(256))
	case 3:
		return uint16(r.Intn(70000))
	case 4:
		return uint32(r.Next())
	case 5:
		return r.Next()
	case 6:
		return uint(r.Next() >> 3)
	case 7:
		return int8(r.Range(-128, 127))
	case 8:
		return int16(r.Range(-32768, 32767))
	case 9:
		return int32(r.Next())
	case 10:
		return int64(r.Next())
	case 11:
		return int(small)
	case 12:
		return float32(r.Range(-8, 8)) / 4
	case 13:
		return hk.Pick(r, []float64{0, 1, -1, 0.5, 1e300, -2.25, math.Inf(1), math.SmallestNonzeroFloat64, float64(small)})
	case 14:
		if forBytemap {
			return time.Unix(int64(r.Range(0, 2000000000)), int64(r.Intn(1000000000))).UTC()
		}
		return "t"
	case 15:
		return nil
	}
	return hk.Pick(r, []string{"x", "y"})
}

func genMap(r *hk.Rng, n int) map[string]interface{} {
	m := map[string]interface{}{}
	for i := 0; i < n; i++ {
		m[fmt.Sprintf("k%d", r.Intn(8))] = genScalar(r, true)
	}
	return m
}

func genBytes(r *hk.Rng, max int) []byte {
	switch r.Intn(6) {
	case 0:
		return nil
	case 1:
		return []byte{}
	}
	b := make([]byte, r.Range(1, max))
	for i := range b {
		b[i] = byte(r.Next())
	}
	return b
}

func genTime(r *hk.Rng) time.Time {
	switch r.Intn(4) {
	case 0:
		return time.Time{}
	case 1:
		return time.Unix(int64(r.Range(0, 2000000000)), 0)
	}
	return time.Unix(int64(r.Range(-1000, 2000000000)), int64(r.Intn(1000000000))).UTC()
}

func genOffset(r *hk.Rng) wal.Offset {
	if r.Chance(1, 5) {
		return nil
	}
	return wal.NewOffset(int64(r.Range(0, 1<<30)), int64(r.Range(0, 1<<20)))
}

// sameTyped compares a bytemap's decoded map with the original map including Go types
// (nil values are dropped by bytemap.AsMap? no: they come back as nil).
func sameTyped(a, b map[string]interface{}) string {
	if len(a) != len(b) {
		return fmt.Sprintf("%d vs %d keys", len(a), len(b))
	}
	for k, va := range a {
		vb, ok := b[k]
		if !ok {
			return "missing key " + k
		}
		if reflect.TypeOf(va) != reflect.TypeOf(vb) {
			return fmt.Sprintf("key %s: type %T vs %T", k, va, vb)
		}
		if ta, ok := va.(time.Time); ok {
			if !ta.Equal(vb.(time.Time)) {
				return fmt.Sprintf("key %s: %v vs %v", k, va, vb)
			}
			continue
		}
		if !reflect.DeepEqual(canon(va), canon(vb)) {
			return fmt.Sprintf("key %s: %v vs %v", k, va, vb)
		}
	}
	return ""
}

func caseMsg(ctx *hk.RunCtx, idx uint64) error {
	r := hk.Derive(ctx.Seed, idx)
	var orig, out interface{}
	var extra func() string // additional semantic check on the decoded message
	nontrivial := true
	kind := hk.Pick(r, []string{"Insert", "Insert", "Query", "Query", "Point", "RemoteQueryResult:row", "RemoteQueryResult:row",
		"RemoteQueryResult:series", "RemoteQueryResult:series", "RemoteQueryResult:fields", "RemoteQueryResult:end",
		"InsertReport", "Follow", "QueryMetaData", "SourceInfo", "RegisterQueryHandler", "large"})
	if idx >= fixedBase {
		// boundary cases between "empty" and "absent" (boundary.go)
		bc := boundaryCases()
		if int(idx-fixedBase) >= len(bc) {
			return fmt.Errorf("no boundary case %d", idx-fixedBase)
		}
		b := bc[idx-fixedBase]
		kind = "boundary: " + b.label
		orig, out = b.orig, b.fresh()
		ctx.Res.Hit("msg:boundary-case")
	} else {
		ctx.Res.Hit("msg:" + kind)
	}
	switch kind {
	case "Insert":
		dims := genMap(r, r.Range(0, 6))
		vals := genMap(r, r.Range(0, 4))
		for k, v := range dims {
			ctx.Res.Hit(fmt.Sprintf("scalar:%T", v))
			_ = k
		}
		m := &rpc.Insert{Stream: hk.Pick(r, []string{"", "inbound", "s"}), TS: int64(r.Next() >> 1), Dims: bytemap.New(dims),
			Vals: bytemap.New(vals), EndOfInserts: r.Chance(1, 6)}
		if r.Chance(1, 8) {
			m.TS = -int64(r.Intn(1000))
		}
		d := &rpc.Insert{}
		orig, out = m, d
		extra = func() string {
			if s := sameTyped(dims, bytemap.ByteMap(d.Dims).AsMap()); s != "" {
				return "Dims decoded as map: " + s
			}
			if s := sameTyped(vals, bytemap.ByteMap(d.Vals).AsMap()); s != "" {
				return "Vals decoded as map: " + s
			}
			return ""
		}
	case "Query":
		var sq [][]interface{}
		for i := r.Range(0, 3); i > 0; i-- {
			var row []interface{}
			for j := r.Range(0, 5); j > 0; j-- {
				v := genScalar(r, false)
				ctx.Res.Hit(fmt.Sprintf("subquery-scalar:%T", v))
				row = append(row, v)
			}
			sq = append(sq, row)
		}
		m := &rpc.Query{SQLString: hk.Pick(r, []string{"", "SELECT * FROM t", "SELECT a FROM t WHERE d IN (SELECT d FROM u)"}),
			IsSubQuery: r.Bool(), SubQueryResults: sq, IncludeMemStore: r.Bool(), Unflat: r.Bool(), Deadline: genTime(r), HasDeadline: r.Bool()}
		d := &rpc.Query{}
		orig, out = m, d
		extra = func() string {
			// type drift of integers inside interface{} (compared by value above)
			for i := range sq {
				for j := range sq[i] {
					if i < len(d.SubQueryResults) && j < len(d.SubQueryResults[i]) &&
						reflect.TypeOf(sq[i][j]) != reflect.TypeOf(d.SubQueryResults[i][j]) {
						ctx.Res.Hit(fmt.Sprintf("subquery-type-drift:%T->%T", sq[i][j], d.SubQueryResults[i][j]))
					}
				}
			}
			if m.HasDeadline && !m.Deadline.Equal(d.Deadline) {
				return "Deadline is another instant"
			}
			return ""
		}
	case "large":
		// a message of several HTTP/2 frames (16 KB each)
		size := hk.Pick(r, []int{r.Range(17000, 40000), r.Range(40000, 120000)})
		switch r.Intn(3) {
		case 0:
			orig, out = &rpc.Point{Data: fill(uint64(idx), 0, size), Offset: genOffset(r)}, &rpc.Point{}
		case 1:
			orig, out = &rpc.RemoteQueryResult{Key: bytemap.New(genMap(r, 3)), Vals: core.Vals{encoding.Sequence(fill(uint64(idx), 1, size)), nil,
				encoding.Sequence(fill(uint64(idx), 2, 17))}}, &rpc.RemoteQueryResult{}
		default:
			orig, out = &rpc.RemoteQueryResult{Row: &core.FlatRow{TS: int64(idx), Key: bytemap.New(genMap(r, 3)), Values: fillFloats(uint64(idx), 3, size/9)}}, &rpc.RemoteQueryResult{}
		}
	case "Point":
		orig, out = &rpc.Point{Data: genBytes(r, 200), Offset: genOffset(r)}, &rpc.Point{}
	case "RemoteQueryResult:row":
		row := &core.FlatRow{TS: int64(r.Next() >> 2), Key: bytemap.New(genMap(r, r.Range(0, 4)))}
		for i := r.Range(0, 5); i > 0; i-- {
			row.Values = append(row.Values, hk.Pick(r, []float64{0, 1, -1.5, math.NaN(), math.Inf(-1), 1e-300, float64(r.Range(-100, 100)) / 8}))
		}
		row.SetFields(core.Fields{core.NewField("a", expr.SUM("a"))}) // unexported: does not travel
		orig, out = &rpc.RemoteQueryResult{Row: row}, &rpc.RemoteQueryResult{}
	case "RemoteQueryResult:series":
		m := &rpc.RemoteQueryResult{Key: bytemap.New(genMap(r, r.Range(0, 4)))}
		for i := r.Range(0, 4); i > 0; i-- {
			m.Vals = append(m.Vals, encoding.Sequence(genBytes(r, 64)))
		}
		orig, out = m, &rpc.RemoteQueryResult{}
	case "RemoteQueryResult:fields":
		var fs core.Fields
		for i := r.Range(0, 4); i > 0; i-- {
			fs = append(fs, core.NewField(hk.Pick(r, []string{"a", "b", "_points", "x_y"}), genExpr(r).e))
		}
		orig, out = &rpc.RemoteQueryResult{Fields: fs}, &rpc.RemoteQueryResult{}
		nontrivial = len(fs) > 0
	case "RemoteQueryResult:end":
		m := &rpc.RemoteQueryResult{EndOfResults: true, Error: hk.Pick(r, []string{"", "boom", "context deadline exceeded"})}
		if r.Bool() {
			m.Stats = &common.QueryStats{NumPartitions: r.Intn(9), NumSuccessfulPartitions: r.Intn(9), LowestHighWaterMark: int64(r.Next() >> 1),
				HighestHighWaterMark: int64(r.Next() >> 1)}
			for i := r.Range(0, 3); i > 0; i-- {
				m.Stats.MissingPartitions = append(m.Stats.MissingPartitions, r.Intn(9))
			}
		}
		orig, out = m, &rpc.RemoteQueryResult{}
	case "InsertReport":
		m := &rpc.InsertReport{Received: r.Intn(1000), Succeeded: r.Intn(1000), Errors: map[int]string{}}
		for i := r.Range(0, 4); i > 0; i-- {
			m.Errors[r.Intn(1000)] = hk.Pick(r, []string{"Need at least one dim", "Need at least one val", ""})
		}
		orig, out = m, &rpc.InsertReport{}
	case "Follow":
		m := &common.Follow{FollowerID: common.FollowerID{Partition: r.Intn(8), ID: r.Intn(8)}, Stream: "inbound", EarliestOffset: genOffset(r),
			Partitions: map[string]*common.Partition{}}
		for i := r.Range(0, 3); i > 0; i-- {
			p := &common.Partition{}
			for j := r.Range(0, 3); j > 0; j-- {
				p.Keys = append(p.Keys, hk.Pick(r, []string{"d", "g", "k"}))
			}
			for j := r.Range(0, 3); j > 0; j-- {
				pt := &common.PartitionTable{Name: hk.Pick(r, []string{"t", "u", "v"}), Offsets: common.OffsetsBySource{}}
				for k := r.Range(0, 3); k > 0; k-- {
					pt.Offsets[r.Intn(5)] = genOffset(r)
				}
				p.Tables = append(p.Tables, pt)
			}
			m.Partitions[fmt.Sprintf("p%d", i)] = p
		}
		orig, out = m, &common.Follow{}
	case "QueryMetaData":
		orig, out = &common.QueryMetaData{FieldNames: []string{"a", "b"}[:r.Intn(3)], AsOf: genTime(r), Until: genTime(r),
			Resolution: time.Duration(r.Range(0, 3600)) * time.Second, Plan: "flatten\n  group"}, &common.QueryMetaData{}
	case "SourceInfo":
		orig, out = &rpc.SourceInfo{ID: r.Range(-2, 100000)}, &rpc.SourceInfo{}
		nontrivial = false
	case "RegisterQueryHandler":
		orig, out = &rpc.RegisterQueryHandler{Partition: r.Range(0, 300)}, &rpc.RegisterQueryHandler{}
		nontrivial = false
	}
	co := canon(orig)
	cs := map[string]interface{}{"mode": "msg", "kind": kind, "msg": co}
	ctx.Res.Count(cs, nontrivial)
	var err error
	ownership := ""
	var input []byte
	if pn := hk.Recover(func() {
		var b []byte
		b, err = rpc.Codec.Marshal(orig)
		if err != nil {
			return
		}
		atReturn := append([]byte(nil), b...)
		// ownership of Marshal's result: the sender marshals the next messages of the
		// stream while gRPC's transport still references this one (everything beyond the
		// first 16 KB frame is written later by another goroutine)
		for j, nLater := 0, r.Range(1, 3); j < nLater; j++ {
			size := hk.Pick(r, []int{len(b) / 2, len(b), 2*len(b) + 16, r.Range(1, 64)})
			if _, lerr := rpc.Codec.Marshal(&rpc.Point{Data: fill(uint64(idx)+1, j, size), Offset: genOffset(r)}); lerr != nil {
				err = lerr
				return
			}
		}
		if !bytes.Equal(b, atReturn) {
			first := 0
			for first < len(b) && b[first] == atReturn[first] {
				first++
			}
			ownership = fmt.Sprintf("the %d bytes returned by Marshal were modified by a later Marshal call (first changed byte at offset %d); gRPC keeps the slice by reference until its frames are written", len(b), first)
			return
		}
		input = atReturn
		err = rpc.Codec.Unmarshal(input, out)
	}); pn != nil {
		err = fmt.Errorf("panic: %v", pn)
	}
	if ownership != "" {
		ctx.Res.Disagree(hk.Disagreement{Kind: "property", Case: cs, Detail: kind + ": " + ownership, PropertyFails: true, Index: idx})
		return nil
	}
	detail := ""
	if err != nil {
		detail = "codec error: " + err.Error()
	} else if cd := canon(out); !reflect.DeepEqual(normJSON(co), normJSON(cd)) {
		detail = "decoded message differs from the original: " + firstDiff("", normJSON(co), normJSON(cd))
		ctx.Res.Disagree(hk.Disagreement{Kind: "property", Case: cs, Impl: cd, Model: co, Detail: kind + ": " + detail, PropertyFails: true, Index: idx})
		return nil
	} else if extra != nil {
		detail = extra()
	}
	if detail == "" && err == nil {
		// ownership of Unmarshal's input: the receiver's buffer may be reused once
		// Unmarshal has returned; the decoded message must not alias it
		for i := range input {
			input[i] = 0xA5
		}
		if cd := canon(out); !reflect.DeepEqual(normJSON(co), normJSON(cd)) {
			detail = "the decoded message changed when the input bytes were overwritten after Unmarshal returned (it aliases the receive buffer)"
		}
	}
	if detail != "" {
		ctx.Res.Disagree(hk.Disagreement{Kind: "property", Case: cs, Detail: kind + ": " + detail, PropertyFails: true, Index: idx})
	}
	return nil
}

// firstDiff names the first place where two canonical forms differ.
func firstDiff(path string, a, b interface{}) string {
	show := func(v interface{}) string {
		switch v {
		case "nil-slice":
			return "nil"
		case "nil-map":
			return "nil map"
		}
		s := fmt.Sprint(v)
		if l, ok := v.([]interface{}); ok && len(l) == 0 {
			s = "empty (non-nil)"
		}
		if s == "x" {
			s = "empty (non-nil) bytes"
		}
		if len(s) > 80 {
			s = s[:80] + "…"
		}
		return s
	}
	switch x := a.(type) {
	case map[string]interface{}:
		y, ok := b.(map[string]interface{})
		if !ok {
			break
		}
		keys := make([]string, 0, len(x))
		for k := range x {
			keys = append(keys, k)
		}
		sort.Strings(keys)
		for _, k := range keys {
			if !reflect.DeepEqual(x[k], y[k]) {
				return firstDiff(path+"."+k, x[k], y[k])
			}
		}
	case []interface{}:
		y, ok := b.([]interface{})
		if !ok || len(x) != len(y) {
			break
		}
		for i := range x {
			if !reflect.DeepEqual(x[i], y[i]) {
				return firstDiff(fmt.Sprintf("%s[%d]", path, i), x[i], y[i])
			}
		}
	}
	return fmt.Sprintf("%s: sent %s, received %s", strings.TrimPrefix(path, "."), show(a), show(b))
}
