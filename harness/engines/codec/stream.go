package codec

// Mode stream: every streamed message type of the RPC surface over a real gRPC connection
// (rpcserver.PrepareServer <-> rpc.Dial on 127.0.0.1, snappy framing, rpc.Codec), with
// streams of several messages sent back to back, some of them LARGE (20-200 KB: long
// series, thousands of row values, big bytemaps, long field lists) so that a message spans
// several HTTP/2 frames and is still referenced by the transport when the sender marshals
// the next one:
//
//	query-rows     server -> client   QueryMetaData, then one RemoteQueryResult{Row} per row
//	remote-flat    follower -> leader RemoteQueryResult{Fields}, then {Row} per row, then {Stats}
//	remote-unflat  follower -> leader RemoteQueryResult{Fields}, then {Key, Vals} per row, then {Stats}
//	follow         leader -> follower one Point{Data, Offset} per WAL entry
//	insert         client -> server   one Insert{Stream, TS, Dims, Vals} per point
//
// Both ends are driven by the harness (a stub rpcserver.DB on the serving side), so the
// oracle is exact: the sequence received equals the sequence sent, message by message and
// value by value; nothing lost, duplicated or reordered.  On the leader side of the
// remote-query stream the received objects are retained until the stream ends (as
// queryCluster does) and compared then.
//
// A case is fully described by its spec (kind, message sizes, content seed); replays and
// corpus files carry the spec.

import (
	"bytes"
	"context"
	"encoding/json"
	"fmt"
	"io"
	"math"
	"os"
	"path/filepath"
	"sort"
	"strings"
	"sync"
	"time"

	"github.com/getlantern/bytemap"
	"github.com/getlantern/wal"
	"github.com/getlantern/zenodb/common"
	"github.com/getlantern/zenodb/core"
	"github.com/getlantern/zenodb/encoding"
	"github.com/getlantern/zenodb/expr"
	"github.com/getlantern/zenodb/planner"
	"github.com/getlantern/zenodb/rpc"

	"zvh/hk"
)

var streamKinds = []string{"remote-unflat", "query-rows", "remote-flat", "follow", "insert"}

type streamSpec struct {
	Kind  string `json:"kind"`
	Shape string `json:"shape"` // where the bulk goes (see builders)
	Sizes []int  `json:"sizes"` // approximate payload bytes per message, in sending order
	Head  int    `json:"head"`  // approximate bytes of the leading metadata / field-list message
	Seed  uint64 `json:"seed"`  // content seed
	// Fail = "final": the follower's query fails after FailAfter rows; ProcessRemoteQuery then
	// puts the error text on the FINAL message, together with EndOfResults (remote kinds only)
	Fail      string `json:"fail,omitempty"`
	FailAfter int    `json:"fail_after,omitempty"`
}

const corpusBase = uint64(1) << 41

// ---------------------------------------------------------------- content

// fill writes n pseudo-random bytes that are different for every (seed, msg).
func fill(seed uint64, msg int, n int) []byte {
	b := make([]byte, n)
	x := seed*0x9E3779B97F4A7C15 + uint64(msg+1)*0xBF58476D1CE4E5B9 + 1
	for i := 0; i < n; i += 8 {
		x ^= x << 13
		x ^= x >> 7
		x ^= x << 17
		for j := 0; j < 8 && i+j < n; j++ {
			b[i+j] = byte(x >> (8 * uint(j)))
		}
	}
	return b
}

func fillFloats(seed uint64, msg int, n int) []float64 {
	raw := fill(seed, msg, n*4)
	out := make([]float64, n)
	for i := range out {
		v := uint32(raw[4*i]) | uint32(raw[4*i+1])<<8 | uint32(raw[4*i+2])<<16 | uint32(raw[4*i+3])<<24
		out[i] = float64(v) / 16
	}
	return out
}

// bigKey builds a bytemap of roughly n bytes: an index plus string dims of at most 4000 bytes.
func bigKeyMap(seed uint64, msg int, n int) map[string]interface{} {
	m := map[string]interface{}{"i": msg}
	raw := fill(seed, msg, n)
	for k := 0; len(raw) > 0; k++ {
		l := len(raw)
		if l > 4000 {
			l = 4000
		}
		s := make([]byte, l)
		for j := range s {
			s[j] = 'a' + raw[j]%26
		}
		m[fmt.Sprintf("d%03d", k)] = string(s)
		raw = raw[l:]
	}
	return m
}

func manyFields(seed uint64, n int) core.Fields {
	// one field costs about 45 bytes on the wire
	k := n/45 + 1
	fs := make(core.Fields, k)
	for i := range fs {
		name := fmt.Sprintf("f%05d_%x", i, seed&0xffff)
		switch i % 3 {
		case 0:
			fs[i] = core.NewField(name, expr.SUM(expr.FIELD(name)))
		case 1:
			fs[i] = core.NewField(name, expr.AVG(expr.BOUNDED(expr.FIELD(name), 0, float64(i))))
		default:
			fs[i] = core.NewField(name, expr.DIV(expr.MAX(expr.FIELD(name)), expr.COUNT(expr.FIELD("c"))))
		}
	}
	return fs
}

func buildFlatRow(sp *streamSpec, i int) *core.FlatRow {
	n := sp.Sizes[i]
	row := &core.FlatRow{TS: int64(1583064000000000000) + int64(i)}
	switch {
	case n == 0: // key with zero dims (empty, non-nil), zero values (empty, non-nil)
		row.Key, row.Values = bytemap.New(map[string]interface{}{}), []float64{}
		return row
	case n < 0: // everything at its zero value except the (empty) key
		return &core.FlatRow{Key: bytemap.ByteMap{}}
	}
	if sp.Shape == "key" {
		row.Key = bytemap.New(bigKeyMap(sp.Seed, i, n))
		row.Values = fillFloats(sp.Seed, i, 3)
	} else {
		row.Key = bytemap.New(map[string]interface{}{"i": i, "k": fmt.Sprintf("key-%d", i)})
		row.Values = fillFloats(sp.Seed, i, n/9+1)
	}
	return row
}

type seriesMsg struct {
	key  bytemap.ByteMap
	vals core.Vals
}

func buildSeries(sp *streamSpec, i int) seriesMsg {
	n := sp.Sizes[i]
	m := seriesMsg{key: bytemap.New(map[string]interface{}{"i": i, "k": fmt.Sprintf("key-%d", i)})}
	switch {
	case n == 0: // points lacking every GROUP BY dimension: key with zero dims, still with series
		return seriesMsg{key: bytemap.New(map[string]interface{}{}), vals: core.Vals{encoding.Sequence(fill(sp.Seed, i, 17)), nil, encoding.Sequence{}}}
	case n == -1: // empty key, empty Vals
		return seriesMsg{key: bytemap.ByteMap{}, vals: core.Vals{}}
	case n < -1: // empty key, nil Vals
		return seriesMsg{key: bytemap.ByteMap{}}
	}
	switch sp.Shape {
	case "many-fields":
		raw := fill(sp.Seed, i, n)
		for len(raw) > 0 {
			l := 8 + 9*7
			if l > len(raw) {
				l = len(raw)
			}
			m.vals = append(m.vals, encoding.Sequence(raw[:l]))
			raw = raw[l:]
		}
	case "key":
		m.key = bytemap.New(bigKeyMap(sp.Seed, i, n))
		m.vals = core.Vals{encoding.Sequence(fill(sp.Seed, i, 8+9*3))}
	default: // one long series (a 1 s table spanning thousands of periods) and a short one
		m.vals = core.Vals{encoding.Sequence(fill(sp.Seed, i, n)), encoding.Sequence(fill(sp.Seed+1, i, 17)), nil}
	}
	return m
}

func buildPoint(sp *streamSpec, i int) *rpc.Point {
	switch n := sp.Sizes[i]; {
	case n == 0:
		return &rpc.Point{Data: []byte{}, Offset: wal.NewOffset(int64(i+1), 0)}
	case n < 0:
		return &rpc.Point{}
	}
	return &rpc.Point{Data: fill(sp.Seed, i, sp.Sizes[i]), Offset: wal.NewOffset(int64(i+1), int64(sp.Sizes[i]))}
}

type insertMsg struct {
	ts   time.Time
	dims map[string]interface{}
	vals map[string]interface{}
}

func buildInsert(sp *streamSpec, i int) insertMsg {
	n := sp.Sizes[i]
	m := insertMsg{ts: time.Unix(1583064000, int64(i+1)).UTC()}
	switch {
	case n == 0: // no dims: the server refuses it ("Need at least one dim"), the stream goes on
		m.dims, m.vals = map[string]interface{}{}, map[string]interface{}{"v": 1.0}
		return m
	case n < 0: // no vals: refused as well
		m.dims, m.vals = map[string]interface{}{"i": i}, map[string]interface{}{}
		return m
	}
	if sp.Shape == "vals" {
		m.dims = map[string]interface{}{"i": i}
		m.vals = map[string]interface{}{}
		fl := fillFloats(sp.Seed, i, n/20+1)
		for k, v := range fl {
			m.vals[fmt.Sprintf("v%05d", k)] = v
		}
	} else {
		m.dims = bigKeyMap(sp.Seed, i, n)
		m.vals = map[string]interface{}{"v": float64(i), "w": fillFloats(sp.Seed, i, 1)[0]}
	}
	return m
}

// ---------------------------------------------------------------- canonical forms

func canonRow(r *core.FlatRow) string {
	if r == nil {
		return "<nil row>"
	}
	var sb strings.Builder
	switch {
	case r.Key == nil:
		fmt.Fprintf(&sb, "ts=%d key=nil vals=%d:", r.TS, len(r.Values))
	case len(r.Key) > 64:
		fmt.Fprintf(&sb, "ts=%d key=(%s) vals=%d:", r.TS, hashBytes(r.Key), len(r.Values))
	default:
		fmt.Fprintf(&sb, "ts=%d key=%x vals=%d:", r.TS, []byte(r.Key), len(r.Values))
	}
	if r.Values == nil {
		sb.WriteString("nil-values ")
	}
	h := uint64(1469598103934665603)
	for _, v := range r.Values {
		h = (h ^ math.Float64bits(v)) * 1099511628211
	}
	fmt.Fprintf(&sb, "%x", h)
	if len(r.Values) > 0 {
		fmt.Fprintf(&sb, " first=%x last=%x", math.Float64bits(r.Values[0]), math.Float64bits(r.Values[len(r.Values)-1]))
	}
	return sb.String()
}

func sameRow(a, b *core.FlatRow) bool {
	if a == nil || b == nil {
		return a == b
	}
	if a.TS != b.TS || !bytes.Equal(a.Key, b.Key) || len(a.Values) != len(b.Values) {
		return false
	}
	for i := range a.Values {
		if math.Float64bits(a.Values[i]) != math.Float64bits(b.Values[i]) {
			return false
		}
	}
	return true
}

func sameSeries(a, b seriesMsg) bool {
	if !bytes.Equal(a.key, b.key) || len(a.vals) != len(b.vals) {
		return false
	}
	for i := range a.vals {
		if !bytes.Equal(a.vals[i], b.vals[i]) {
			return false
		}
	}
	return true
}

func hashBytes(b []byte) string {
	h := uint64(1469598103934665603)
	for _, c := range b {
		h = (h ^ uint64(c)) * 1099511628211
	}
	if b == nil {
		return "nil"
	}
	return fmt.Sprintf("%d bytes #%x", len(b), h)
}

func canonSeries(m seriesMsg) string {
	var sb strings.Builder
	fmt.Fprintf(&sb, "key=%s vals=%d", hashBytes(m.key), len(m.vals))
	if m.vals == nil {
		sb.WriteString(" (nil)")
	}
	all := ""
	for i, v := range m.vals {
		hv := hashBytes(v)
		if i < 3 {
			fmt.Fprintf(&sb, " [%s]", hv)
		}
		all += hv + ";"
	}
	if len(m.vals) > 3 {
		fmt.Fprintf(&sb, " all:%s", hashBytes([]byte(all)))
	}
	return sb.String()
}

func fieldsString(fs core.Fields) string {
	var sb strings.Builder
	for _, f := range fs {
		sb.WriteString(f.String())
		sb.WriteByte('\n')
	}
	return sb.String()
}

// seqDiff compares what was received with what was sent, position by position.
func seqDiff(what string, sent, got []string) string {
	for i := 0; i < len(sent) && i < len(got); i++ {
		if sent[i] == got[i] {
			continue
		}
		where := "matches no message that was sent (content mixed or corrupted)"
		strip := strings.NewReplacer("nil-values ", "", " (nil)", "", "key=nil", "key=", "[nil]", "[0 bytes #14650fb0739d0383]", "key=0 bytes #14650fb0739d0383", "key=")
		if strip.Replace(sent[i]) == strip.Replace(got[i]) {
			where = "differs ONLY in nil versus empty-but-non-nil (a value at the boundary between empty and absent)"
		}
		for j, s := range sent {
			if s == got[i] {
				where = fmt.Sprintf("is message %d (reordered or duplicated)", j)
			}
		}
		return fmt.Sprintf("%s %d of %d differs and %s: sent {%s} received {%s}", what, i, len(sent), where, clip(sent[i]), clip(got[i]))
	}
	if len(sent) != len(got) {
		return fmt.Sprintf("%d %ss sent, %d received", len(sent), what, len(got))
	}
	return ""
}

func clip(s string) string {
	if len(s) > 300 {
		return s[:300] + "…"
	}
	return s
}

// ---------------------------------------------------------------- serving side

type stubSource struct {
	fields core.Fields
	rows   []*core.FlatRow
	stats  *common.QueryStats
}

func (s *stubSource) GetGroupBy() []core.GroupBy   { return nil }
func (s *stubSource) GetResolution() time.Duration { return time.Second }
func (s *stubSource) GetAsOf() time.Time           { return time.Unix(1583064000, 0) }
func (s *stubSource) GetUntil() time.Time          { return time.Unix(1583067600, 0) }
func (s *stubSource) String() string               { return "stub source" }
func (s *stubSource) Iterate(ctx context.Context, onFields core.OnFields, onRow core.OnFlatRow) (interface{}, error) {
	if err := onFields(s.fields); err != nil {
		return nil, err
	}
	for _, r := range s.rows {
		more, err := onRow(r)
		if err != nil || !more {
			return s.stats, err
		}
	}
	return s.stats, nil
}

type gotInsert struct {
	stream string
	ts     time.Time
	dims   []byte
	vals   []byte
}

// stubDB is the rpcserver.DB behind the serving end.
type stubDB struct {
	mu       sync.Mutex
	queries  map[string]*stubSource
	follows  map[string][]*rpc.Point
	gotFol   map[string]*common.Follow
	inserts  map[string][]gotInsert
	handlers chan planner.QueryClusterFN
}

func newStubDB() *stubDB {
	return &stubDB{queries: map[string]*stubSource{}, follows: map[string][]*rpc.Point{}, gotFol: map[string]*common.Follow{},
		inserts: map[string][]gotInsert{}, handlers: make(chan planner.QueryClusterFN, 16)}
}

func (d *stubDB) InsertRaw(stream string, ts time.Time, dims bytemap.ByteMap, vals bytemap.ByteMap) error {
	d.mu.Lock()
	defer d.mu.Unlock()
	// retained as received (a real database keeps dims/vals in its WAL buffer and memstore)
	d.inserts[stream] = append(d.inserts[stream], gotInsert{stream, ts, dims, vals})
	return nil
}

func (d *stubDB) Query(sql string, isSubQuery bool, subQueryResults [][]interface{}, includeMemStore bool) (core.FlatRowSource, error) {
	d.mu.Lock()
	defer d.mu.Unlock()
	s, ok := d.queries[sql]
	if !ok {
		return nil, fmt.Errorf("stub: unknown query %q", sql)
	}
	return s, nil
}

func (d *stubDB) Follow(f *common.Follow, cb func([]byte, wal.Offset) error) {
	d.mu.Lock()
	entries := d.follows[f.Stream]
	d.gotFol[f.Stream] = f
	d.mu.Unlock()
	for _, p := range entries {
		if err := cb(p.Data, p.Offset); err != nil {
			return
		}
	}
}

func (d *stubDB) RegisterQueryHandler(partition int, query planner.QueryClusterFN) {
	d.handlers <- query
}

type streamEnv struct {
	db     *stubDB
	client rpc.Client
	stop   func()
}

func (e *streamEnv) close() {
	if e == nil {
		return
	}
	if e.client != nil {
		e.client.Close()
	}
	if e.stop != nil {
		e.stop()
	}
}

func newStreamEnv() (*streamEnv, error) {
	env := &streamEnv{db: newStubDB()}
	addr, stop, err := serve(env.db)
	if err != nil {
		return nil, err
	}
	env.stop = stop
	if env.client, err = rpc.Dial(addr, &rpc.ClientOpts{Password: "pw"}); err != nil {
		env.close()
		return nil, err
	}
	return env, nil
}

// ---------------------------------------------------------------- one stream

type streamOutcome struct {
	diff  string // property failure ("" = none)
	infra error  // could not run (timeout, connection): never a verdict
}

func isTimeout(err error) bool {
	if err == nil {
		return false
	}
	s := err.Error()
	return strings.Contains(s, "DeadlineExceeded") || strings.Contains(s, "deadline exceeded") ||
		strings.Contains(s, "connection refused") || strings.Contains(s, "transport is closing") ||
		strings.Contains(s, "Unavailable")
}

func (env *streamEnv) run(sp *streamSpec, key string) (out streamOutcome) {
	ctx, cancel := context.WithTimeout(context.Background(), 30*time.Second)
	defer cancel()
	n := len(sp.Sizes)
	streamErr := func(what string, err error) {
		if isTimeout(err) {
			out.infra = fmt.Errorf("%s: %v", what, err)
		} else {
			out.diff = fmt.Sprintf("%s: %s", what, printable(err.Error()))
		}
	}
	switch sp.Kind {
	case "query-rows":
		qfields := manyFields(sp.Seed, sp.Head)
		if sp.Head <= 0 {
			qfields = core.Fields{}
		}
		src := &stubSource{fields: qfields, stats: &common.QueryStats{NumPartitions: 3, NumSuccessfulPartitions: 2, LowestHighWaterMark: 5, HighestHighWaterMark: 9, MissingPartitions: []int{1}}}
		sent := make([]string, n)
		for i := 0; i < n; i++ {
			r := buildFlatRow(sp, i)
			src.rows = append(src.rows, r)
			sent[i] = canonRow(r)
		}
		env.db.mu.Lock()
		env.db.queries[key] = src
		env.db.mu.Unlock()
		md, iterate, err := env.client.Query(ctx, key, true)
		if err != nil {
			streamErr("query", err)
			return
		}
		if strings.Join(md.FieldNames, ",") != strings.Join(src.fields.Names(), ",") || (md.FieldNames == nil) != (src.fields.Names() == nil) {
			out.diff = fmt.Sprintf("QueryMetaData.FieldNames: %d names sent, %d received, or contents differ", len(src.fields), len(md.FieldNames))
			return
		}
		var got []string
		stats, err := iterate(func(row *core.FlatRow) (bool, error) {
			got = append(got, canonRow(row))
			return true, nil
		})
		if d := seqDiff("row", sent, got); d != "" {
			out.diff = d
			if err != nil {
				out.diff += " (stream ended with: " + printable(err.Error()) + ")"
			}
			return
		}
		if err != nil {
			streamErr("query rows", err)
			return
		}
		if !sameJSON(canon(stats), canon(src.stats)) {
			out.diff = fmt.Sprintf("QueryStats differ: %+v vs %+v", stats, src.stats)
		}

	case "remote-flat", "remote-unflat":
		unflat := sp.Kind == "remote-unflat"
		fields := manyFields(sp.Seed, sp.Head)
		if sp.Head <= 0 {
			fields = core.Fields{} // a field list with zero fields, non-nil
		}
		stats := &common.QueryStats{NumPartitions: 1, NumSuccessfulPartitions: 1, LowestHighWaterMark: int64(sp.Seed >> 8), HighestHighWaterMark: math.MaxInt64}
		rows := make([]*core.FlatRow, n)
		series := make([]seriesMsg, n)
		for i := 0; i < n; i++ {
			if unflat {
				series[i] = buildSeries(sp, i)
			} else {
				rows[i] = buildFlatRow(sp, i)
			}
		}
		// a follower whose query fails part-way (deadline, out of memory, a panic turned into
		// an error): it reports the error on its last message
		failing := sp.Fail == "final"
		failAfter := sp.FailAfter
		if failAfter < 0 || failAfter > n {
			failAfter = n
		}
		followerErr := fmt.Errorf("follower query failed: zvh-%x after %d rows", sp.Seed&0xffffff, failAfter)
		// follower side: answers the query it is sent
		var gotQuery rpc.Query
		follower := func(fctx context.Context, sqlString string, isSubQuery bool, subQueryResults [][]interface{}, uf bool,
			onFields core.OnFields, onRow core.OnRow, onFlatRow core.OnFlatRow) (interface{}, error) {
			gotQuery = rpc.Query{SQLString: sqlString, IsSubQuery: isSubQuery, SubQueryResults: subQueryResults, Unflat: uf,
				IncludeMemStore: common.ShouldIncludeMemStore(fctx)}
			if err := onFields(fields); err != nil {
				return nil, err
			}
			for i := 0; i < n; i++ {
				if failing && i == failAfter {
					return stats, followerErr
				}
				var err error
				if uf {
					_, err = onRow(series[i].key, series[i].vals)
				} else {
					_, err = onFlatRow(rows[i])
				}
				if err != nil {
					return stats, err
				}
			}
			if failing {
				return stats, followerErr
			}
			return stats, nil
		}
		var wg sync.WaitGroup
		wg.Add(1)
		var ferr error
		go func() {
			defer wg.Done()
			ferr = env.client.ProcessRemoteQuery(ctx, 7, follower, 10*time.Second)
		}()
		var handler planner.QueryClusterFN
		select {
		case handler = <-env.db.handlers:
		case <-time.After(10 * time.Second):
			out.infra = fmt.Errorf("no remote query handler registered within 10s")
			return
		}
		// leader side: retains what it receives until the stream has ended (queryCluster
		// pushes rows into a channel and merges them later)
		var gotFields core.Fields
		var gotRows []*core.FlatRow
		var gotSeries []seriesMsg
		hctx := common.WithIncludeMemStore(ctx, true)
		subq := [][]interface{}{{"x", "y"}, {int64(-3)}}
		hstats, herr := handler(hctx, key, true, subq, unflat, func(fs core.Fields) error {
			gotFields = fs
			return nil
		}, func(k bytemap.ByteMap, v core.Vals) (bool, error) {
			gotSeries = append(gotSeries, seriesMsg{k, v})
			return true, nil
		}, func(r *core.FlatRow) (bool, error) {
			gotRows = append(gotRows, r)
			return true, nil
		})
		wg.Wait()
		sent := make([]string, n)
		var got []string
		if failing {
			sent = sent[:failAfter]
		}
		if unflat {
			for i := range sent {
				sent[i] = canonSeries(series[i])
			}
			for _, g := range gotSeries {
				got = append(got, canonSeries(g))
			}
		} else {
			for i := range sent {
				sent[i] = canonRow(rows[i])
			}
			for _, g := range gotRows {
				got = append(got, canonRow(g))
			}
		}
		if gotQuery.SQLString != key || !gotQuery.IsSubQuery || gotQuery.Unflat != unflat || !gotQuery.IncludeMemStore ||
			!sameJSON(canon(gotQuery.SubQueryResults), canon(subq)) {
			out.diff = fmt.Sprintf("the follower received another query than the leader sent (sent SQLString=%q IsSubQuery=true Unflat=%v IncludeMemStore=true SubQueryResults=%v): %+v", key, unflat, subq, gotQuery)
			return
		}
		// the message kind the leader infers: queryCluster (cluster_query.go) tells the messages
		// of a partition apart by `fields != nil`, `key != nil`, `flatRow != nil`; a message
		// with none of them is taken for the partition's final result (its rows so far are
		// all the leader waits for: the rest is dropped without an error)
		kind := ""
		if gotFields == nil && herr == nil {
			kind = "the field list arrives as nil"
		}
		for i, g := range gotSeries {
			if g.key == nil && i < len(series) && series[i].key != nil && kind == "" {
				kind = fmt.Sprintf("unflat row %d of %d (key with %d bytes, %d series) arrives with Key == nil", i, n, len(series[i].key), len(series[i].vals))
			}
		}
		for i, g := range gotRows {
			if g == nil && kind == "" {
				kind = fmt.Sprintf("flat row %d of %d arrives as a nil Row", i, n)
			}
		}
		if kind != "" {
			out.diff = kind + ": queryCluster takes that message for the END of the partition's results, the remaining rows are dropped and no error is reported"
		} else if fieldsString(gotFields) != fieldsString(fields) || (gotFields == nil) != (fields == nil) {
			out.diff = fmt.Sprintf("field list received by the leader differs: %d fields sent, %d received", len(fields), len(gotFields))
		} else if d := seqDiff("row", sent, got); d != "" {
			out.diff = d
		}
		if out.diff != "" {
			if herr != nil {
				out.diff += " (leader side ended with: " + printable(herr.Error()) + ")"
			}
			return
		}
		if failing {
			// an error sent by the follower is an error seen by the leader: the handler that
			// HandleRemoteQueries registered must return it to queryCluster (which then counts
			// the partition as missing instead of successful)
			switch {
			case herr == nil:
				out.diff = fmt.Sprintf("the follower's query failed after %d of %d rows and it reported %q on its final message (Error together with EndOfResults, as ProcessRemoteQuery sends it); the leader's handler returned NO error: the partition counts as successful and its %d rows as the complete answer", failAfter, n, followerErr.Error(), len(got))
			case !strings.Contains(herr.Error(), followerErr.Error()):
				out.diff = fmt.Sprintf("the follower reported %q, the leader's handler returned another error: %s", followerErr.Error(), printable(herr.Error()))
			}
			return
		}
		if herr != nil {
			streamErr("remote query, leader side", herr)
			return
		}
		if ferr != nil {
			streamErr("remote query, follower side", ferr)
			return
		}
		if hs, ok := hstats.(*common.QueryStats); !ok || !sameJSON(canon(hs), canon(stats)) {
			out.diff = fmt.Sprintf("QueryStats received by the leader differ: %+v vs %+v", hstats, stats)
		}

	case "follow":
		pts := make([]*rpc.Point, n)
		sent := make([]string, n)
		for i := range pts {
			pts[i] = buildPoint(sp, i)
			sent[i] = hashBytes(pts[i].Data) + " @" + fmt.Sprintf("%x", []byte(pts[i].Offset))
		}
		env.db.mu.Lock()
		env.db.follows[key] = pts
		env.db.mu.Unlock()
		f := &common.Follow{FollowerID: common.FollowerID{Partition: 2, ID: 5}, Stream: key, EarliestOffset: wal.NewOffset(3, 4),
			Partitions: map[string]*common.Partition{}}
		// the Follow request itself can be large: many tables with offsets per source
		for t := 0; t*60 < sp.Head; t++ {
			p := &common.Partition{Keys: []string{"d", "g"}}
			p.Tables = append(p.Tables, &common.PartitionTable{Name: fmt.Sprintf("table_%04d", t),
				Offsets: common.OffsetsBySource{0: wal.NewOffset(int64(t), 1), 1: wal.NewOffset(int64(t), 2)}})
			f.Partitions[fmt.Sprintf("p%04d", t)] = p
		}
		_, next, err := env.client.Follow(ctx, f)
		if err != nil {
			streamErr("follow", err)
			return
		}
		var got []string
		var last error
		for {
			data, off, err := next()
			if err != nil {
				last = err
				break
			}
			got = append(got, hashBytes(data)+" @"+fmt.Sprintf("%x", []byte(off)))
		}
		if d := seqDiff("WAL entry", sent, got); d != "" {
			out.diff = d + " (stream ended with: " + printable(last.Error()) + ")"
			return
		}
		if last != io.EOF {
			streamErr("follow stream", last)
			return
		}
		env.db.mu.Lock()
		gf := env.db.gotFol[key]
		env.db.mu.Unlock()
		if !sameJSON(canon(gf), canon(f)) {
			out.diff = "the Follow request received by the leader differs from the one sent"
		}

	case "insert":
		msgs := make([]insertMsg, n)
		var sent []string
		refused := map[int]string{}
		for i := range msgs {
			msgs[i] = buildInsert(sp, i)
		}
		ins, err := env.client.NewInserter(ctx, key)
		if err != nil {
			streamErr("inserter", err)
			return
		}
		for i, m := range msgs {
			keys := make([]string, 0, len(m.vals))
			for k := range m.vals {
				keys = append(keys, k)
			}
			sort.Strings(keys)
			vals := m.vals
			if err := ins.Insert(m.ts, m.dims, func(cb func(string, interface{})) {
				for _, k := range keys {
					cb(k, vals[k])
				}
			}); err != nil {
				streamErr(fmt.Sprintf("insert %d", i), err)
				return
			}
			switch {
			case len(m.dims) == 0:
				refused[i] = "Need at least one dim"
			case len(m.vals) == 0:
				refused[i] = "Need at least one val"
			default:
				sent = append(sent, fmt.Sprintf("ts=%d dims=%s vals=%s", m.ts.UnixNano(), hashBytes(bytemap.New(m.dims)), hashBytes(bytemap.New(m.vals))))
			}
		}
		report, err := ins.Close()
		env.db.mu.Lock()
		recv := env.db.inserts[key]
		env.db.mu.Unlock()
		var got []string
		for _, g := range recv {
			got = append(got, fmt.Sprintf("ts=%d dims=%s vals=%s", g.ts.UnixNano(), hashBytes(g.dims), hashBytes(g.vals)))
		}
		if d := seqDiff("insert", sent, got); d != "" {
			out.diff = d
			if err != nil {
				out.diff += " (stream ended with: " + printable(err.Error()) + ")"
			}
			return
		}
		if err != nil {
			streamErr("closing the inserter", err)
			return
		}
		if report.Received != n || report.Succeeded != n-len(refused) || !sameJSON(canon(report.Errors), canon(refused)) {
			out.diff = fmt.Sprintf("InsertReport %+v for %d inserts of which %v must be refused", report, n, refused)
		}
	default:
		out.infra = fmt.Errorf("unknown stream kind %q", sp.Kind)
	}
	return
}

// ---------------------------------------------------------------- generation

func genStreamSpec(seed, idx uint64) *streamSpec {
	r := hk.Derive(seed^0x57EA, idx)
	sp := &streamSpec{Kind: streamKinds[int(idx%uint64(len(streamKinds)))], Seed: r.Next() >> 16}
	switch sp.Kind {
	case "query-rows", "remote-flat":
		sp.Shape = hk.Pick(r, []string{"values", "values", "key"})
	case "remote-unflat":
		sp.Shape = hk.Pick(r, []string{"one-series", "one-series", "many-fields", "key"})
	case "insert":
		sp.Shape = hk.Pick(r, []string{"dims", "vals"})
	}
	tiny := func() int { return r.Range(10, 300) }
	mid := func() int { return r.Range(4000, 15000) }
	big := func() int {
		return hk.Pick(r, []int{r.Range(20000, 40000), r.Range(40000, 100000), r.Range(100000, 200000)})
	}
	k := r.Range(4, 9)
	switch idx / uint64(len(streamKinds)) % 5 {
	case 4: // values at the boundary between "empty" and "absent", in every position:
		// first, middle, right before the end-of-stream message, and next to large ones
		edge := func() int { return hk.Pick(r, []int{0, 0, -1, -2}) }
		sp.Sizes = []int{edge(), tiny(), big(), edge(), mid(), edge()}
		if r.Bool() {
			sp.Sizes = append([]int{tiny()}, sp.Sizes...)
		}
		if r.Chance(1, 3) {
			sp.Sizes = append(sp.Sizes, tiny())
		}
		if r.Chance(1, 2) {
			sp.Head = 0 // empty field list / no field names / minimal Follow request
		} else {
			sp.Head = r.Range(50, 400)
		}
		if (sp.Kind == "remote-flat" || sp.Kind == "remote-unflat") && r.Chance(1, 3) {
			sp.Fail = "final"
			sp.FailAfter = hk.Pick(r, []int{0, 1, len(sp.Sizes) / 2, len(sp.Sizes)})
		}
		return sp
	case 0: // equal-size large messages back to back: a mix-up decodes without error
		b := big()
		for i := 0; i < k; i++ {
			sp.Sizes = append(sp.Sizes, b)
		}
	case 1: // large messages of different sizes
		for i := 0; i < k; i++ {
			sp.Sizes = append(sp.Sizes, big())
		}
	case 2: // large followed by small
		for i := 0; i < k; i++ {
			if i%2 == 0 {
				sp.Sizes = append(sp.Sizes, big())
			} else {
				sp.Sizes = append(sp.Sizes, tiny())
			}
		}
	default:
		for i := 0; i < k; i++ {
			sp.Sizes = append(sp.Sizes, hk.Pick(r, []func() int{tiny, mid, big, big})())
		}
		sp.Sizes[r.Intn(k-1)] = big()
	}
	// keep one stream below ~1.2 MB
	total := 0
	for i, s := range sp.Sizes {
		total += s
		if total > 1200000 {
			sp.Sizes = sp.Sizes[:i]
			break
		}
	}
	if (sp.Kind == "remote-flat" || sp.Kind == "remote-unflat") && r.Chance(1, 3) {
		sp.Fail = "final"
		sp.FailAfter = hk.Pick(r, []int{0, 1, len(sp.Sizes) / 2, len(sp.Sizes) - 1, len(sp.Sizes)})
	}
	if r.Chance(1, 3) {
		sp.Head = r.Range(20000, 60000) // a large first message (field list / metadata / follow request)
	} else {
		sp.Head = r.Range(50, 400)
	}
	return sp
}

func sizeClass(n int) string {
	switch {
	case n <= 0:
		return "boundary(empty/zero)"
	case n < 1000:
		return "<1KB"
	case n < 16384:
		return "1-16KB"
	case n < 65536:
		return "16-64KB"
	}
	return "64-200KB"
}

type streamRunner struct {
	ctx *hk.RunCtx
	env *streamEnv
	seq int
}

func (sr *streamRunner) close() { sr.env.close() }

func (sr *streamRunner) ensure() error {
	if sr.env != nil {
		return nil
	}
	var err error
	for attempt := 0; attempt < 2; attempt++ {
		if sr.env, err = newStreamEnv(); err == nil {
			return nil
		}
	}
	return err
}

func (sr *streamRunner) one(sp *streamSpec, idx uint64) {
	ctx := sr.ctx
	cs := map[string]interface{}{"mode": "stream", "spec": sp}
	large := 0
	followed := false
	for i, s := range sp.Sizes {
		if s >= 16384 {
			large++
			if i+1 < len(sp.Sizes) {
				followed = true
			}
		}
		ctx.Res.Hit("stream-msg:" + sizeClass(s))
	}
	ctx.Res.Hit("stream:" + sp.Kind)
	if sp.Shape != "" {
		ctx.Res.Hit("stream-shape:" + sp.Kind + "/" + sp.Shape)
	}
	if sp.Head >= 16384 {
		ctx.Res.Hit("stream-head:large")
	}
	if sp.Fail != "" {
		ctx.Res.Hit("stream-fail:" + sp.Kind + "/error-on-final-message")
	}
	var out streamOutcome
	for attempt := 0; attempt < 2; attempt++ {
		if err := sr.ensure(); err != nil {
			out = streamOutcome{infra: err}
			continue
		}
		sr.seq++
		out = sr.env.run(sp, fmt.Sprintf("case-%d-%d", idx, sr.seq))
		if out.infra == nil && out.diff == "" {
			break
		}
		// fresh connection and server after any trouble
		sr.env.close()
		sr.env = nil
		if out.diff != "" {
			break
		}
	}
	if out.infra != nil {
		ctx.Res.Inconclusive++
		ctx.Res.Note("stream: %v", out.infra)
		return
	}
	ctx.Res.Count(cs, large > 0 && followed)
	if out.diff != "" {
		ctx.Res.Disagree(hk.Disagreement{Kind: "property", Case: cs, Detail: sp.Kind + ": " + out.diff, PropertyFails: true, Index: idx})
	}
}

func specFromFile(path string) (*streamSpec, bool) {
	b, err := os.ReadFile(path)
	if err != nil {
		return nil, false
	}
	var f struct {
		Mode string      `json:"mode"`
		Spec *streamSpec `json:"spec"`
		Case struct {
			Mode string      `json:"mode"`
			Spec *streamSpec `json:"spec"`
		} `json:"case"`
	}
	if json.Unmarshal(b, &f) != nil {
		return nil, false
	}
	if f.Spec != nil && (f.Mode == "stream" || f.Mode == "") {
		return f.Spec, len(f.Spec.Sizes) > 0
	}
	if f.Case.Spec != nil {
		return f.Case.Spec, len(f.Case.Spec.Sizes) > 0
	}
	return nil, false
}

// runStream: corpus specs first (only from case 0), then generated streams From .. From+N-1.
func runStream(ctx *hk.RunCtx, replaySpec *streamSpec, replayIdx uint64) error {
	sr := &streamRunner{ctx: ctx}
	defer sr.close()
	if replaySpec != nil {
		sr.one(replaySpec, replayIdx)
		return nil
	}
	if ctx.Corpus != "" && ctx.From == 0 {
		files, _ := filepath.Glob(filepath.Join(ctx.Corpus, "*.json"))
		sort.Strings(files)
		for i, f := range files {
			if sp, ok := specFromFile(f); ok {
				ctx.Res.Hit("stream-corpus-case")
				sr.one(sp, corpusBase+uint64(i))
			}
		}
	}
	for i := ctx.From; i < ctx.From+ctx.N; i++ {
		sr.one(genStreamSpec(ctx.Seed, uint64(i)), uint64(i))
	}
	return nil
}
