package codec

// Mode e2e: one embedded zenodb, served by rpcserver.PrepareServer on 127.0.0.1.
//
//   * the same generated points are inserted once through the rpc client's Inserter (stream
//     in_rpc -> table t_rpc) and once in-process (stream in_emb -> table t_emb);
//   * every generated query is answered (1) in-process, (2) through rpc client.Query,
//     (3) through the remote-query stream (client.ProcessRemoteQuery on the follower side,
//     the handler that rpcserver.HandleRemoteQueries registers on the leader side), flat
//     and unflat; and (4) in-process against t_emb.  All row sets must be equal; for the
//     unflat remote answer the decoded field expressions must read the decoded series
//     exactly like the originals read the original series.

import (
	"context"
	"fmt"
	"io"
	"math"
	"net"
	"os"
	"sort"
	"strings"
	"sync"
	"time"

	"github.com/getlantern/bytemap"
	"github.com/getlantern/golog"
	"github.com/getlantern/wal"
	"github.com/getlantern/zenodb"
	"github.com/getlantern/zenodb/common"
	"github.com/getlantern/zenodb/core"
	"github.com/getlantern/zenodb/encoding"
	"github.com/getlantern/zenodb/planner"
	"github.com/getlantern/zenodb/rpc"
	rpcserver "github.com/getlantern/zenodb/rpc/server"

	"zvh/gen"
	"zvh/hk"
)

var e2eBase = time.Date(2020, 3, 1, 12, 0, 0, 0, time.UTC)

const tableSQL = `SELECT SUM(a) AS sa, SUM(b) AS sb, SUM(c) AS sc, MIN(a) AS mna, MIN(b) AS mnb, MIN(c) AS mnc,
 MAX(a) AS mxa, MAX(b) AS mxb, MAX(c) AS mxc, COUNT(a) AS ca, COUNT(b) AS cb, COUNT(c) AS cc,
 AVG(a) AS aa, AVG(b) AS ab, AVG(c) AS ac, PERCENTILE(BOUNDED(a, 0, 8), 90, 0, 10, 1) AS pa
 FROM %s GROUP BY d, g, n, flag, period(1s)`

const longTableSQL = `SELECT SUM(a) AS sa, MAX(b) AS mxb FROM in_long GROUP BY k, period(1s)`

const longKeys = 12
const longSpread = 3000 // seconds between the first and the last point of a key

// leaderStub is the rpcserver.DB of the "leader" end of the remote-query stream: it only
// collects the handlers that HandleRemoteQueries registers.
type leaderStub struct {
	handlers chan planner.QueryClusterFN
}

func (l *leaderStub) InsertRaw(string, time.Time, bytemap.ByteMap, bytemap.ByteMap) error {
	return fmt.Errorf("not a database")
}
func (l *leaderStub) Query(string, bool, [][]interface{}, bool) (core.FlatRowSource, error) {
	return nil, fmt.Errorf("not a database")
}
func (l *leaderStub) Follow(*common.Follow, func([]byte, wal.Offset) error) {}
func (l *leaderStub) RegisterQueryHandler(partition int, query planner.QueryClusterFN) {
	l.handlers <- query
}

type e2eEnv struct {
	dir     string
	db      *zenodb.DB
	client  rpc.Client // to the database server
	fclient rpc.Client // "follower" connection to the leader stub
	leader  *leaderStub
	stops   []func()
	nPoints int
	nLong   int
}

func (e *e2eEnv) close() {
	if e.client != nil {
		e.client.Close()
	}
	if e.fclient != nil {
		e.fclient.Close()
	}
	for _, s := range e.stops {
		s()
	}
	if e.db != nil {
		e.db.Close()
	}
	os.RemoveAll(e.dir)
}

func serve(db rpcserver.DB) (string, func(), error) {
	l, err := net.Listen("tcp", "127.0.0.1:0")
	if err != nil {
		return "", nil, err
	}
	start, stop := rpcserver.PrepareServer(db, l, &rpcserver.Opts{ID: 1, Password: "pw"})
	go start()
	return l.Addr().String(), func() { stop(); l.Close() }, nil
}

type e2ePoint struct {
	ts   time.Time
	dims map[string]interface{}
	vals map[string]interface{}
}

func genData(r *hk.Rng, n int) []e2ePoint {
	pts := make([]e2ePoint, n)
	for i := range pts {
		dims := map[string]interface{}{"d": hk.Pick(r, []string{"x", "y", "z"}), "g": hk.Pick(r, []string{"1", "2"})}
		// dimension values of several scalar types
		switch r.Intn(4) {
		case 0:
			dims["n"] = r.Range(1, 3)
		case 1:
			dims["n"] = int64(r.Range(1, 3))
		case 2:
			dims["n"] = float64(r.Range(1, 3))
		}
		if r.Bool() {
			dims["flag"] = r.Bool()
		}
		vals := map[string]interface{}{}
		for _, f := range []string{"a", "b", "c"} {
			if r.Chance(4, 5) {
				switch r.Intn(3) {
				case 0:
					vals[f] = r.Range(-3, 9) // int
				case 1:
					vals[f] = float64(r.Range(-4, 12)) / 2
				default:
					vals[f] = float64(r.Range(0, 8))
				}
			}
		}
		if len(vals) == 0 {
			vals["a"] = 1.0
		}
		pts[i] = e2ePoint{ts: e2eBase.Add(time.Duration(r.Range(0, 9999)) * time.Millisecond), dims: dims, vals: vals}
	}
	return pts
}

func setupE2E(ctx *hk.RunCtx) (*e2eEnv, error) {
	golog.SetOutputs(io.Discard, io.Discard)
	env := &e2eEnv{leader: &leaderStub{handlers: make(chan planner.QueryClusterFN, 16)}}
	var err error
	env.dir, err = os.MkdirTemp("", "zvh-*")
	if err != nil {
		return nil, err
	}
	env.db, err = zenodb.NewDB(&zenodb.DBOpts{Dir: env.dir, VirtualTime: true, IterationCoalesceInterval: time.Millisecond})
	if err != nil {
		env.close()
		return nil, err
	}
	for _, t := range [][2]string{{"t_rpc", "in_rpc"}, {"t_emb", "in_emb"}} {
		if err := env.db.CreateTable(&zenodb.TableOpts{Name: t[0], RetentionPeriod: time.Hour, SQL: fmt.Sprintf(tableSQL, t[1])}); err != nil {
			env.close()
			return nil, fmt.Errorf("create table: %v", err)
		}
	}
	// a fine-resolution table whose series span thousands of periods: every row that a
	// follower returns unflattened is tens of KB, i.e. several HTTP/2 frames
	if err := env.db.CreateTable(&zenodb.TableOpts{Name: "t_long", RetentionPeriod: 3 * time.Hour, SQL: longTableSQL}); err != nil {
		env.close()
		return nil, fmt.Errorf("create table: %v", err)
	}
	addr, stop, err := serve(env.db)
	if err != nil {
		env.close()
		return nil, err
	}
	env.stops = append(env.stops, stop)
	laddr, lstop, err := serve(env.leader)
	if err != nil {
		env.close()
		return nil, err
	}
	env.stops = append(env.stops, lstop)
	if env.client, err = rpc.Dial(addr, &rpc.ClientOpts{Password: "pw"}); err != nil {
		env.close()
		return nil, err
	}
	if env.fclient, err = rpc.Dial(laddr, &rpc.ClientOpts{Password: "pw"}); err != nil {
		env.close()
		return nil, err
	}

	// data: identical points through the rpc inserter and in-process
	r := hk.Derive(ctx.Seed, 0xE2E)
	pts := genData(r, 240)
	env.nPoints = len(pts)
	ictx, cancel := context.WithTimeout(context.Background(), 30*time.Second)
	defer cancel()
	ins, err := env.client.NewInserter(ictx, "in_rpc")
	if err != nil {
		env.close()
		return nil, fmt.Errorf("inserter: %v", err)
	}
	for _, p := range pts {
		vals := p.vals
		if err := ins.Insert(p.ts, p.dims, func(cb func(string, interface{})) {
			keys := make([]string, 0, len(vals))
			for k := range vals {
				keys = append(keys, k)
			}
			sort.Strings(keys)
			for _, k := range keys {
				cb(k, vals[k])
			}
		}); err != nil {
			env.close()
			return nil, fmt.Errorf("rpc insert: %v", err)
		}
		if err := env.db.Insert("in_emb", p.ts, p.dims, p.vals); err != nil {
			env.close()
			return nil, fmt.Errorf("embedded insert: %v", err)
		}
	}
	// t_long: per key one point at the start and a few near the end of a 50-minute span
	// (inserted before everything else in time, so the virtual clock ends where it did)
	for k := 0; k < longKeys; k++ {
		for j, back := range []int{longSpread, longSpread - 1 - k, 700 + k, k, 0} {
			ts := e2eBase.Add(-time.Duration(back) * time.Second)
			vals := map[string]interface{}{"a": float64(1000*k + j), "b": float64(k*j) / 2}
			if err := env.db.Insert("in_long", ts, map[string]interface{}{"k": k}, vals); err != nil {
				env.close()
				return nil, fmt.Errorf("embedded insert: %v", err)
			}
			env.nLong++
		}
	}
	report, err := ins.Close()
	if err != nil {
		env.close()
		return nil, fmt.Errorf("closing inserter: %v", err)
	}
	if report.Received != len(pts) || report.Succeeded != len(pts) || len(report.Errors) != 0 {
		env.close()
		return nil, fmt.Errorf("insert report: %+v", report)
	}
	return env, nil
}

type flatRow struct {
	TS   int64
	Key  string
	Vals []string
}

func keyString(k bytemap.ByteMap) string {
	m := k.AsMap()
	keys := make([]string, 0, len(m))
	for n := range m {
		keys = append(keys, n)
	}
	sort.Strings(keys)
	var sb strings.Builder
	for _, n := range keys {
		fmt.Fprintf(&sb, "%s=(%T)%v;", n, m[n], m[n])
	}
	return sb.String()
}

func mkFlat(row *core.FlatRow) flatRow {
	fr := flatRow{TS: row.TS, Key: keyString(row.Key)}
	for _, v := range row.Values {
		fr.Vals = append(fr.Vals, canonFloat(v))
	}
	return fr
}

func rowsString(rows []flatRow, ordered bool) string {
	ss := make([]string, len(rows))
	for i, r := range rows {
		ss[i] = fmt.Sprintf("%d|%s|%s", r.TS, r.Key, strings.Join(r.Vals, ","))
	}
	if !ordered {
		sort.Strings(ss)
	}
	return strings.Join(ss, "\n")
}

type answer struct {
	stats  *common.QueryStats
	fields []string // "name (expr)"
	names  []string
	rows   []flatRow
	err    error
}

func (e *e2eEnv) embedded(sql string) (a answer, fields core.Fields) {
	src, err := e.db.Query(sql, false, nil, true)
	if err != nil {
		a.err = err
		return
	}
	ctx, cancel := context.WithTimeout(context.Background(), 20*time.Second)
	defer cancel()
	_, a.err = src.Iterate(ctx, func(fs core.Fields) error {
		fields = fs
		for _, f := range fs {
			a.fields = append(a.fields, f.String())
			a.names = append(a.names, f.Name)
		}
		return nil
	}, func(row *core.FlatRow) (bool, error) {
		a.rows = append(a.rows, mkFlat(row))
		return true, nil
	})
	return
}

func (e *e2eEnv) viaClient(sql string) (a answer) {
	ctx, cancel := context.WithTimeout(context.Background(), 20*time.Second)
	defer cancel()
	md, iterate, err := e.client.Query(ctx, sql, true)
	if err != nil {
		a.err = err
		return
	}
	a.names = md.FieldNames
	_, a.err = iterate(func(row *core.FlatRow) (bool, error) {
		a.rows = append(a.rows, mkFlat(row))
		return true, nil
	})
	return
}

// localQuery is what a follower does with a query it receives (zenodb.(*DB).queryForRemote).
func (e *e2eEnv) localQuery(ctx context.Context, sqlString string, isSubQuery bool, subQueryResults [][]interface{}, unflat bool,
	onFields core.OnFields, onRow core.OnRow, onFlatRow core.OnFlatRow) (interface{}, error) {
	source, err := e.db.Query(sqlString, isSubQuery, subQueryResults, common.ShouldIncludeMemStore(ctx))
	if err != nil {
		return nil, err
	}
	if unflat {
		return core.UnflattenOptimized(source).Iterate(ctx, onFields, onRow)
	}
	return source.Iterate(ctx, onFields, onFlatRow)
}

type seriesRow struct {
	key  string
	vals core.Vals
}

type remoteAnswer struct {
	fields core.Fields
	flat   []flatRow
	series []seriesRow
	err    error
	infra  error
}

func copyVals(vals core.Vals) core.Vals {
	out := make(core.Vals, len(vals))
	for i, v := range vals {
		out[i] = append(encoding.Sequence(nil), v...)
	}
	return out
}

// viaRemote sends the query from the leader stub to the follower connection and collects
// what arrives back on the leader side.
func (e *e2eEnv) viaRemote(sql string, unflat bool) (ra remoteAnswer) {
	var wg sync.WaitGroup
	wg.Add(1)
	var ferr error
	go func() {
		defer wg.Done()
		ferr = e.fclient.ProcessRemoteQuery(context.Background(), 0, e.localQuery, 10*time.Second)
	}()
	var handler planner.QueryClusterFN
	select {
	case handler = <-e.leader.handlers:
	case <-time.After(10 * time.Second):
		ra.infra = fmt.Errorf("no remote query handler registered within 10s")
		return
	}
	ctx, cancel := context.WithTimeout(common.WithIncludeMemStore(context.Background(), true), 20*time.Second)
	defer cancel()
	_, ra.err = handler(ctx, sql, false, nil, unflat, func(fs core.Fields) error {
		ra.fields = fs
		return nil
	}, func(key bytemap.ByteMap, vals core.Vals) (bool, error) {
		ra.series = append(ra.series, seriesRow{keyString(key), copyVals(vals)})
		return true, nil
	}, func(row *core.FlatRow) (bool, error) {
		ra.flat = append(ra.flat, mkFlat(row))
		return true, nil
	})
	wg.Wait()
	if ferr != nil && ra.err == nil {
		ra.infra = fmt.Errorf("follower side: %v", ferr)
	}
	return
}

func (e *e2eEnv) embeddedSeries(sql string) (fields core.Fields, rows []seriesRow, err error) {
	src, err := e.db.Query(sql, false, nil, true)
	if err != nil {
		return nil, nil, err
	}
	ctx, cancel := context.WithTimeout(context.Background(), 20*time.Second)
	defer cancel()
	_, err = core.UnflattenOptimized(src).Iterate(ctx, func(fs core.Fields) error {
		fields = fs
		return nil
	}, func(key bytemap.ByteMap, vals core.Vals) (bool, error) {
		rows = append(rows, seriesRow{keyString(key), copyVals(vals)})
		return true, nil
	})
	return
}

func seriesString(rows []seriesRow) string {
	ss := make([]string, len(rows))
	for i, r := range rows {
		var sb strings.Builder
		sb.WriteString(r.key)
		for _, v := range r.vals {
			fmt.Fprintf(&sb, "|%x", []byte(v))
		}
		ss[i] = sb.String()
	}
	sort.Strings(ss)
	return strings.Join(ss, "\n")
}

// readSeries evaluates every field on every period of its series.
func readSeries(fields core.Fields, rows []seriesRow) string {
	var sb strings.Builder
	sorted := append([]seriesRow(nil), rows...)
	sort.Slice(sorted, func(i, j int) bool { return sorted[i].key < sorted[j].key })
	for _, r := range sorted {
		sb.WriteString(r.key)
		for i, f := range fields {
			if i >= len(r.vals) {
				break
			}
			w := f.Expr.EncodedWidth()
			seq := r.vals[i]
			if w == 0 || len(seq) < 8 {
				sb.WriteString("|-")
				continue
			}
			n := seq.NumPeriods(w)
			for p := 0; p < n; p++ {
				v, ok := seq.ValueAt(p, f.Expr)
				if math.IsNaN(v) {
					fmt.Fprintf(&sb, "|NaN/%v", ok)
				} else {
					fmt.Fprintf(&sb, "|%x/%v", math.Float64bits(v), ok)
				}
			}
		}
		sb.WriteString("\n")
	}
	return sb.String()
}

// ---------------------------------------------------------------- queries

// plainArgs rewrites aggregate arguments to plain fields so that every stateful leaf is one
// of the table's stored fields (SUM/MIN/MAX/COUNT/AVG of a, b, c).
func plainArgs(r *hk.Rng, n *gen.Node) {
	switch n.Kind {
	case "agg":
		if n.Kids[0].Kind != "field" {
			n.Kids[0] = &gen.Node{Kind: "field", Name: hk.Pick(r, fields)}
		}
		return
	case "avg":
		if n.Kids[0].Kind != "field" {
			n.Kids[0] = &gen.Node{Kind: "field", Name: hk.Pick(r, fields)}
		}
		n.Kids[1] = &gen.Node{Kind: "const", Const: 1}
		return
	}
	for _, k := range n.Kids {
		plainArgs(r, k)
	}
}

func genQuery(r *hk.Rng, table string, hit func(string)) (sql string, ordered bool) {
	nf := r.Range(1, 3)
	var sel []string
	for i := 0; i < nf; i++ {
		var s string
		switch r.Intn(8) {
		case 0:
			s = hk.Pick(r, []string{"sa", "mnb", "cc", "ab", "pa", "_points"})
			hit("field:stored-by-name")
		case 1:
			s = "PERCENTILE(pa, " + hk.Pick(r, []string{"50", "99", "5"}) + ")"
			hit("field:percentile-of-stored")
		default:
			n := gen.GenExpr(r, gen.ExprOpts{Fields: fields, MaxDepth: r.Range(0, 2), Res: time.Second})
			plainArgs(r, n)
			s = n.SQL()
			hit("field:expression")
			for _, k := range []string{"bin", "if", "shift", "unary", "bounded", "avg"} {
				if n.HasKind(k) {
					hit("field-has:" + k)
				}
			}
		}
		sel = append(sel, fmt.Sprintf("%s AS f%d", s, i))
	}
	sql = "SELECT " + strings.Join(sel, ", ") + " FROM " + table
	if r.Chance(1, 3) {
		sql += " WHERE " + hk.Pick(r, []string{"d = 'x'", "d <> 'x'", "g = '1'", "n = 2", "flag = TRUE"})
		hit("where")
	}
	var gb []string
	for _, d := range []string{"d", "g", "n", "flag"} {
		if r.Chance(1, 3) {
			gb = append(gb, d)
		}
	}
	switch r.Intn(4) {
	case 0:
		gb = append(gb, "period(2s)")
		hit("group:period(2s)")
	case 1:
		gb = append(gb, "period(10s)")
		hit("group:period(10s)")
	case 2:
		hit("group:period-default")
	default:
		if len(gb) == 0 {
			gb = append(gb, "_")
			hit("group:_")
		}
	}
	if len(gb) > 0 {
		sql += " GROUP BY " + strings.Join(gb, ", ")
	}
	if r.Chance(1, 3) {
		ob := []string{"f0"}
		if r.Bool() {
			ob[0] += " DESC"
		}
		sql += " ORDER BY " + strings.Join(ob, ", ")
		hit("order-by")
		// rows with equal f0 may come in any order: still compared as multisets
		if r.Chance(1, 2) {
			sql += fmt.Sprintf(" LIMIT %d", r.Range(1, 500))
			hit("limit")
			ordered = true
		}
	}
	return
}

// printable drops the control bytes that github.com/getlantern/errors hides in messages.
func printable(s string) string {
	return strings.Map(func(c rune) rune {
		if c < 0x20 || c == 0x7f {
			return -1
		}
		return c
	}, s)
}

func runE2E(ctx *hk.RunCtx, only *uint64) error {
	if only != nil && *only >= clusterBase {
		runCluster(ctx, 0, only)
		return nil
	}
	if only == nil && ctx.From == 0 {
		// leader + follower through the leader's own queryCluster (cluster.go)
		runCluster(ctx, ctx.N/5, nil)
	}
	var env *e2eEnv
	var err error
	for attempt := 0; attempt < 2; attempt++ {
		env, err = setupE2E(ctx)
		if err == nil {
			break
		}
	}
	if err != nil {
		ctx.Res.Inconclusive++
		ctx.Res.Note("e2e: setup failed twice: %v", err)
		return nil
	}
	defer env.close()

	// inserts are asynchronous: wait until both tables report every point
	deadline := time.Now().Add(20 * time.Second)
	seen := map[string]float64{}
	for {
		for _, t := range []string{"t_rpc", "t_emb", "t_long"} {
			a, fs := env.embedded("SELECT _points FROM " + t + " GROUP BY _")
			_ = fs
			total := 0.0
			for _, row := range a.rows {
				for _, v := range row.Vals {
					var bits uint64
					fmt.Sscanf(v, "f%x", &bits)
					total += math.Float64frombits(bits)
				}
			}
			seen[t] = total
		}
		if seen["t_rpc"] == float64(env.nPoints) && seen["t_emb"] == float64(env.nPoints) && seen["t_long"] == float64(env.nLong) {
			break
		}
		if time.Now().After(deadline) {
			ctx.Res.Inconclusive++
			ctx.Res.Note("e2e: probe query saw %v of %d points after 20s", seen, env.nPoints)
			return nil
		}
		time.Sleep(50 * time.Millisecond)
	}

	start, end := uint64(ctx.From), uint64(ctx.From+ctx.N)
	if only != nil {
		start, end = *only, *only+1
	} else if ctx.From == 0 {
		for i := range fixedQueries {
			e2eCase(ctx, env, fixedBase+uint64(i))
		}
	}
	for i := start; i < end; i++ {
		e2eCase(ctx, env, i)
	}
	return nil
}

// fixedQueries run before the generated ones: stored PERCENTILE over BOUNDED (BOUNDED
// directly around BOUNDED on the wire), nested BOUNDED, every aggregate, IF and SHIFT.
var fixedQueries = []string{
	"SELECT pa AS f0 FROM t_rpc GROUP BY d",
	"SELECT PERCENTILE(pa, 50) AS f0, sa AS f1 FROM t_rpc GROUP BY d, period(10s)",
	"SELECT SUM(BOUNDED(BOUNDED(a, 0, 8), 1, 5)) AS f0, SUM(a) AS f1 FROM t_rpc GROUP BY g",
	"SELECT SUM(a) AS f0, MIN(b) AS f1, MAX(c) AS f2 FROM t_rpc GROUP BY d, g, n, flag",
	"SELECT COUNT(a) AS f0, AVG(b) AS f1, (SUM(a) / COUNT(b)) AS f2 FROM t_rpc GROUP BY period(2s)",
	"SELECT IF(d = 'x', SUM(a)) AS f0, SHIFT(SUM(b), '-1s') AS f1, LOG2(MAX(c)) AS f2 FROM t_rpc GROUP BY d ORDER BY f0 DESC",
	"SELECT * FROM t_rpc GROUP BY _",
	// long series: the unflat answer of the remote-query stream has rows of ~27 KB each,
	// equal in size, back to back (the shape a non-pushdown cluster query produces)
	"SELECT sa AS f0 FROM t_long GROUP BY k",
	"SELECT sa AS f0, mxb AS f1 FROM t_long GROUP BY k, period(1s)",
	"SELECT sa AS f0 FROM t_long GROUP BY k, period(10s) ORDER BY f0 DESC",
}

func e2eCase(ctx *hk.RunCtx, env *e2eEnv, idx uint64) {
	r := hk.Derive(ctx.Seed, idx)
	var sql string
	var ordered bool
	if idx >= fixedBase {
		if int(idx-fixedBase) >= len(fixedQueries) {
			return
		}
		sql = fixedQueries[idx-fixedBase]
		ctx.Res.Hit("fixed-query")
	} else if idx%8 == 7 {
		// generated query over the long-series table (rows of tens of KB when unflattened)
		sql = "SELECT " + hk.Pick(r, []string{"sa AS f0", "mxb AS f0", "sa AS f0, mxb AS f1", "mxb AS f0, sa AS f1, _points AS f2"}) + " FROM t_long"
		if r.Chance(1, 3) {
			sql += fmt.Sprintf(" WHERE k <> %d", r.Intn(longKeys))
		}
		sql += " GROUP BY k" + hk.Pick(r, []string{"", ", period(1s)", ", period(2s)"})
		ctx.Res.Hit("query:long-series-table")
	} else {
		sql, ordered = genQuery(r, "t_rpc", ctx.Res.Hit)
	}
	cs := map[string]interface{}{"mode": "e2e", "sql": sql}
	fail := func(detail string, impl, want interface{}) {
		detail = printable(detail)
		ctx.Res.Disagree(hk.Disagreement{Kind: "property", Case: cs, Impl: impl, Model: want, Detail: detail, PropertyFails: true, Index: idx})
	}
	emb, embFields := env.embedded(sql)
	if emb.err != nil {
		// a query the planner refuses is refused on every path; compare the refusal only
		ctx.Res.Hit("query-rejected")
		cl := env.viaClient(sql)
		ctx.Res.Count(cs, false)
		if cl.err == nil {
			fail("embedded query fails but the rpc client gets an answer", len(cl.rows), emb.err.Error())
		}
		return
	}
	ctx.Res.Count(cs, len(emb.rows) > 0)
	if len(emb.rows) > 0 {
		ctx.Res.Hit("rows>0")
	}
	want := rowsString(emb.rows, ordered)

	// (4) inserted through rpc vs inserted in-process
	emb2, _ := env.embedded(strings.Replace(sql, "FROM t_rpc", "FROM t_emb", 1))
	if emb2.err != nil || rowsString(emb2.rows, ordered) != want {
		fail("rows over points inserted through rpc differ from rows over the same points inserted in-process",
			rowsString(emb2.rows, ordered), want)
	}

	// (2) rpc client
	cl := env.viaClient(sql)
	if cl.err != nil {
		fail("rpc client query failed: "+cl.err.Error(), nil, nil)
	} else {
		if strings.Join(cl.names, ",") != strings.Join(emb.names, ",") {
			fail("field names over rpc differ", cl.names, emb.names)
		}
		if got := rowsString(cl.rows, ordered); got != want {
			fail("rows over rpc client differ from embedded rows", got, want)
		}
	}

	// (3) remote-query stream, flat
	rf := env.viaRemote(sql, false)
	if rf.infra != nil {
		ctx.Res.Inconclusive++
		ctx.Res.Note("e2e: %v", rf.infra)
		return
	}
	if rf.err != nil {
		fail("remote query (flat) failed: "+rf.err.Error(), nil, nil)
	} else {
		var fs []string
		for _, f := range rf.fields {
			fs = append(fs, f.String())
		}
		if strings.Join(fs, "\n") != strings.Join(emb.fields, "\n") {
			fail("fields received over the remote-query stream differ", fs, emb.fields)
		}
		if got := rowsString(rf.flat, ordered); got != want {
			fail("flat rows over the remote-query stream differ from embedded rows", got, want)
		}
	}

	// (3') remote-query stream, unflat: raw series, interpreted with the decoded fields
	ef, es, err := env.embeddedSeries(sql)
	if err != nil {
		ctx.Res.Hit("unflat-rejected")
		return
	}
	ru := env.viaRemote(sql, true)
	if ru.infra != nil {
		ctx.Res.Inconclusive++
		ctx.Res.Note("e2e: %v", ru.infra)
		return
	}
	if ru.err != nil {
		fail("remote query (unflat) failed: "+ru.err.Error(), nil, nil)
		return
	}
	ctx.Res.Hit("unflat-compared")
	for _, row := range es {
		n := 0
		for _, v := range row.vals {
			n += len(v)
		}
		if n >= 16384 {
			ctx.Res.Hit("unflat-row>=16KB (several HTTP/2 frames)")
			break
		}
	}
	if len(ru.fields) != len(ef) {
		fail("unflat: number of fields differs", len(ru.fields), len(ef))
		return
	}
	for i := range ef {
		if ru.fields[i].String() != ef[i].String() {
			fail("unflat: field differs", ru.fields[i].String(), ef[i].String())
			return
		}
		if d := differences(r, ef[i].Expr, ru.fields[i].Expr, nil, func(k string) { ctx.Res.Hit("e2e-field:" + k) }); d != "" {
			fail("unflat: decoded field expression behaves differently: "+d, nil, ef[i].String())
			return
		}
	}
	if got, w := seriesString(ru.series), seriesString(es); got != w {
		fail("raw series over the remote-query stream differ from embedded series", got, w)
		return
	}
	if got, w := readSeries(ru.fields, ru.series), readSeries(ef, es); got != w {
		fail("decoded fields read the decoded series differently", got, w)
	}
	_ = embFields
}
