// Package codec is the correspondence engine for C20 (data crossing the RPC boundary keeps
// its meaning).  Modes:
//
//	expr  generated expression trees and core.Fields lists go through the real rpc.Codec
//	      (msgpack with zenodb's registered ext types and custom En/Decoders); the original
//	      and the decoded object are compared through every method of expr.Expr on random
//	      states (property oracle), the real wire bytes are compared with the model's `enc`
//	      and the decoded object graph (closure identities included) with the model's `dec`.
//	msg   rpc.Insert / Query / Point / RemoteQueryResult / InsertReport, common.Follow /
//	      QueryMetaData round-tripped and compared field by field.
//	e2e   an embedded zenodb served by rpcserver on 127.0.0.1: generated queries answered
//	      through rpc.Dial's client, through the remote-query path (follower on behalf of a
//	      leader) and in-process; rows compared.
package codec

import (
	"bytes"
	"encoding/json"
	"fmt"
	"os"
	"reflect"
	"time"

	"github.com/getlantern/zenodb/core"
	"github.com/getlantern/zenodb/expr"
	"github.com/getlantern/zenodb/rpc"

	"zvh/gen"
	"zvh/hk"
)

type Engine struct{}

func init() {
	for i, c := range gen.Conds {
		b, err := rpc.Codec.Marshal(c)
		if err != nil {
			panic(err)
		}
		condRaw[string(b)] = i
	}
}

type replayFile struct {
	Engine string          `json:"engine"`
	Mode   string          `json:"mode"`
	Seed   uint64          `json:"seed"`
	Index  *uint64         `json:"index"`
	Case   json.RawMessage `json:"case"`
}

func (Engine) Run(ctx *hk.RunCtx) error {
	mode := ctx.Mode
	if ctx.Replay != "" {
		b, err := os.ReadFile(ctx.Replay)
		if err != nil {
			return err
		}
		var rp replayFile
		if err := json.Unmarshal(b, &rp); err != nil {
			return err
		}
		var cm struct {
			Mode string `json:"mode"`
		}
		json.Unmarshal(rp.Case, &cm)
		if cm.Mode != "" {
			mode = cm.Mode
		} else if rp.Mode != "" {
			mode = rp.Mode
		}
		if rp.Index == nil {
			return fmt.Errorf("replay file has no case index")
		}
		ctx.Seed = rp.Seed
		ctx.Res.Note("replaying mode=%s seed=%d index=%d", mode, rp.Seed, *rp.Index)
		if mode == "stream" {
			// a stream case is fully described by its spec
			setRule(ctx, mode)
			sp, ok := specFromFile(ctx.Replay)
			if !ok {
				sp = genStreamSpec(rp.Seed, *rp.Index)
			}
			return runStream(ctx, sp, *rp.Index)
		}
		return runOne(ctx, mode, *rp.Index)
	}
	switch mode {
	case "expr", "msg":
		setRule(ctx, mode)
		if mode == "expr" && ctx.From == 0 {
			for i := range fixedExprs() {
				if err := runOne(ctx, mode, fixedBase+uint64(i)); err != nil {
					return err
				}
			}
		}
		if mode == "msg" && ctx.From == 0 {
			for i := range boundaryCases() {
				if err := runOne(ctx, mode, fixedBase+uint64(i)); err != nil {
					return err
				}
			}
		}
		for i := ctx.From; i < ctx.From+ctx.N; i++ {
			if err := runOne(ctx, mode, uint64(i)); err != nil {
				return err
			}
		}
		return nil
	case "e2e":
		setRule(ctx, mode)
		return runE2E(ctx, nil)
	case "stream":
		setRule(ctx, mode)
		return runStream(ctx, nil, 0)
	case "":
		// all four, shares 88 % / 8 % / 2 % / 2 %
		for _, part := range []struct {
			mode string
			pct  int
		}{{"expr", 88}, {"msg", 8}, {"e2e", 2}, {"stream", 2}} {
			sub := *ctx
			sub.Mode = part.mode
			sub.N = ctx.N * part.pct / 100
			if err := (Engine{}).Run(&sub); err != nil {
				return err
			}
		}
		return nil
	}
	return fmt.Errorf("codec: unknown mode %q", mode)
}

func setRule(ctx *hk.RunCtx, mode string) {
	rules := map[string]string{
		"expr":   "expr: one generated expression tree (or field list) per case, marshalled and unmarshalled by rpc.Codec; distinct by the object-graph dump; non-trivial = the tree has state (EncodedWidth > 0) and at least one node whose decoder restores an unexported field (aggregate, binaryExpr, unaryMathExpr, bounded, ptileOptimized)",
		"msg":    "msg: one generated message per case, round-tripped, plus the ownership contract (the bytes Marshal returned stay valid across later Marshal calls; the decoded message stays valid after the input bytes are overwritten); distinct by canonical content; non-trivial = at least one non-zero field besides the discriminator",
		"stream": "stream: one gRPC stream of 4-9 generated messages per case (query rows, remote-query results flat/unflat, WAL entries, inserts) between a stub database and the real rpc client/server; distinct by spec; non-trivial = at least one message of 16 KB or more that is followed by another message on the same stream",
		"e2e":    "e2e: one generated SQL query per case over a fixed data set, answered via rpc client, via the remote-query stream and embedded; distinct by SQL text; non-trivial = the embedded answer has at least one row",
	}
	if ctx.Res.Rule != "" {
		ctx.Res.Rule += "; "
	}
	ctx.Res.Rule += rules[mode]
}

func runOne(ctx *hk.RunCtx, mode string, idx uint64) error {
	switch mode {
	case "expr":
		return caseExpr(ctx, idx)
	case "msg":
		return caseMsg(ctx, idx)
	case "e2e":
		return runE2E(ctx, &idx)
	}
	return fmt.Errorf("codec: unknown mode %q", mode)
}

func normJSON(v interface{}) interface{} {
	b, _ := json.Marshal(v)
	var x interface{}
	json.Unmarshal(b, &x)
	return x
}

func sameJSON(a interface{}, b interface{}) bool {
	return reflect.DeepEqual(normJSON(a), normJSON(b))
}

// holder is how an expression crosses the boundary: as an interface-typed struct field.
type holder struct {
	E expr.Expr
}

func holderField(w interface{}) (interface{}, error) {
	m, ok := w.(map[string]interface{})
	if !ok {
		return nil, fmt.Errorf("holder is not a map")
	}
	kvs, ok := m["map"].([]interface{})
	if !ok || len(kvs) != 1 {
		return nil, fmt.Errorf("holder map has unexpected shape")
	}
	kv := kvs[0].([]interface{})
	return kv[1], nil
}

var restoringKinds = []string{"agg", "bin", "unary", "bounded", "ptileopt"}

// fixedBase marks the indices of the hand-picked cases that run before the generated ones.
const fixedBase = uint64(1) << 40

// fixedExprs: every registry key, every registered type and the shapes that once broke.
func fixedExprs() []*tree {
	var out []*tree
	add := func(e expr.Expr, subs ...expr.Expr) { out = append(out, &tree{e: e, subs: subs}) }
	a, b := expr.FIELD("a"), expr.FIELD("b")
	for _, n := range []string{"SUM", "MIN", "MAX", "COUNT"} {
		add(aggCtors[n](a))
		add(aggCtors[n](expr.BOUNDED(b, 0, 5)))
	}
	for _, op := range binOpsList {
		l, r := expr.SUM(a), expr.AVG(b)
		add(binCtors[op](l, r), l, r)
	}
	for _, n := range unaryNames {
		e, _ := expr.UnaryMath(n, expr.SUM(a))
		add(e, expr.SUM(a))
	}
	for i := range gen.Conds {
		add(expr.IF(gen.Conds[i], expr.SUM(a)), expr.SUM(a))
	}
	add(expr.SHIFT(expr.SUM(a), -2*time.Second), expr.SUM(a))
	add(expr.WAVG(a, b))
	add(expr.BOUNDED(expr.SUM(a), -1, 4), expr.SUM(a))
	// BOUNDED directly around BOUNDED: the inner one used to be written without ext header
	add(expr.SUM(expr.BOUNDED(expr.BOUNDED(a, 1, 9), 0, 100)))
	p := expr.PERCENTILE(expr.BOUNDED(a, 1, 9), 90, 0, 100, 0)
	add(p)
	add(expr.PERCENTILEOPT(p, 50), p)
	add(expr.PERCENTILEOPT(expr.PERCENTILEOPT(p, 50), 75), p)
	// DeAggregated binary inside PERCENTILE
	add(expr.PERCENTILE(expr.ADD(expr.SUM(a), expr.SUM(b)), expr.FIELD("p"), 0, 20, 1))
	add(expr.ADD(expr.SUM(a), expr.CONST(0.5)), expr.SUM(a))
	return out
}

// caseExpr: one expression through the codec.
func caseExpr(ctx *hk.RunCtx, idx uint64) error {
	r := hk.Derive(ctx.Seed, idx)
	var t *tree
	if idx >= fixedBase {
		fx := fixedExprs()
		if int(idx-fixedBase) >= len(fx) {
			return fmt.Errorf("no fixed case %d", idx-fixedBase)
		}
		t = fx[idx-fixedBase]
		ctx.Res.Hit("fixed-case")
	} else {
		t = genExpr(r)
	}
	orig := t.e
	d := dump(orig)
	ks := map[string]bool{}
	kinds(d, ks)
	for k := range ks {
		ctx.Res.Hit("node:" + k)
	}
	valid := orig.Validate() == nil
	if valid {
		ctx.Res.Hit("valid")
	} else {
		ctx.Res.Hit("invalid (not accepted by Validate; still must round-trip)")
	}
	restoring := false
	for _, k := range restoringKinds {
		if ks[k] {
			restoring = true
		}
	}
	// container: bare interface, or a core.Fields list inside a RemoteQueryResult
	nFields := 0
	if r.Chance(1, 3) {
		nFields = r.Range(1, 4)
	}
	cs := map[string]interface{}{"mode": "expr", "g": d, "fields": nFields}
	ctx.Res.Count(cs, restoring && orig.EncodedWidth() > 0)

	var fieldList []string
	fail := func(kind, detail string, impl, model interface{}) {
		ctx.Res.Disagree(hk.Disagreement{Kind: kind, Case: map[string]interface{}{"mode": "expr", "expr": orig.String(), "g": d, "fields": nFields, "field_list": fieldList},
			Impl: impl, Model: model, Detail: detail, PropertyFails: kind == "property", Index: idx})
	}

	// --- the real codec
	var raw, rawAtReturn []byte
	var dec expr.Expr
	var err error
	if pn := hk.Recover(func() {
		// an expression always travels inside a struct field of interface type
		// (core.Field.Expr); a bare top-level Marshal would bypass the ext header
		raw, err = rpc.Codec.Marshal(&holder{E: orig})
		if err != nil {
			return
		}
		rawAtReturn = append([]byte(nil), raw...)
		if nFields == 0 {
			ctx.Res.Hit("container:holder")
			out := &holder{}
			err = rpc.Codec.Unmarshal(raw, out)
			dec = out.E
			return
		}
		ctx.Res.Hit("container:fields")
		fs := make(core.Fields, nFields)
		pos := r.Intn(nFields)
		for i := range fs {
			if i == pos {
				fs[i] = core.NewField(fmt.Sprintf("f%d", i), orig)
			} else {
				fs[i] = core.NewField(fmt.Sprintf("f%d", i), genExpr(r).e)
			}
		}
		for _, f := range fs {
			fieldList = append(fieldList, f.String())
		}
		var b []byte
		b, err = rpc.Codec.Marshal(&rpc.RemoteQueryResult{Fields: fs})
		if err != nil {
			return
		}
		out := &rpc.RemoteQueryResult{}
		err = rpc.Codec.Unmarshal(b, out)
		if err != nil {
			return
		}
		if len(out.Fields) != len(fs) {
			err = fmt.Errorf("field list length %d became %d", len(fs), len(out.Fields))
			return
		}
		for i := range fs {
			if out.Fields[i].Name != fs[i].Name || out.Fields[i].String() != fs[i].String() {
				err = fmt.Errorf("field %d: %q became %q", i, fs[i].String(), out.Fields[i].String())
				return
			}
		}
		dec = out.Fields[pos].Expr
	}); pn != nil {
		fail("property", fmt.Sprintf("codec panicked: %v", pn), nil, nil)
		return nil
	}
	if err != nil {
		fail("property", "codec error: "+err.Error(), nil, nil)
		return nil
	}

	// --- ownership: the bytes Marshal handed out are the caller's; later Marshal calls (the
	// field list, the second hop) must not have touched them
	ownership := func() {
		if !bytes.Equal(raw, rawAtReturn) {
			fail("property", "the byte slice returned by Marshal was modified by a later Marshal call (gRPC keeps it by reference until the frames are written)", nil, nil)
		}
	}
	defer ownership()
	// --- property oracle: no observer tells them apart
	if diff := differences(r, orig, dec, t.subs, ctx.Res.Hit); diff != "" {
		fail("property", "decoded expression differs from the original: "+diff, dump(dec), d)
	}
	// known asymmetry outside the property: Validate() reads binaryExpr.DeAggregated
	if (dec.Validate() == nil) != valid {
		ctx.Res.Hit("validate-differs-after-roundtrip (DeAggregated not restored; not an observer of C20)")
	}
	// second hop
	raw2, err2 := rpc.Codec.Marshal(&holder{E: dec})
	if err2 != nil {
		fail("property", "re-encoding the decoded expression failed: "+err2.Error(), nil, nil)
	} else {
		out2 := &holder{}
		if err := rpc.Codec.Unmarshal(raw2, out2); err != nil || !sameJSON(dump(out2.E), dump(dec)) {
			fail("property", "second hop changes the object", dump(out2.E), dump(dec))
		}
	}

	// --- model
	if ctx.Model == nil {
		return nil
	}
	out, merr := ctx.Model.Call(map[string]interface{}{"engine": "codec", "op": "roundtrip", "g": d})
	if merr != nil {
		return merr
	}
	var mo struct {
		Wire        interface{} `json:"wire"`
		Dec         interface{} `json:"dec"`
		Linked      bool        `json:"linked"`
		Width       int         `json:"width"`
		Validate    bool        `json:"validate"`
		DecValidate *bool       `json:"decValidate"`
		HasModel    bool        `json:"hasModel"`
		SameModel   *bool       `json:"sameModel"`
		Shift       *string     `json:"shift"`
		IsConstant  *bool       `json:"isConstant"`
	}
	if err := json.Unmarshal(out, &mo); err != nil {
		return err
	}
	implWire, werr := parseWire(rawAtReturn)
	if werr == nil {
		implWire, werr = holderField(implWire)
	}
	if werr != nil {
		fail("model-vs-impl", "cannot parse the real wire bytes: "+werr.Error(), nil, nil)
		return nil
	}
	if !sameJSON(implWire, mo.Wire) {
		fail("model-vs-impl", "wire format: real msgpack bytes vs model enc", implWire, mo.Wire)
	}
	if !sameJSON(dump(dec), mo.Dec) {
		fail("model-vs-impl", "decoded object graph: real decoder vs model dec", dump(dec), mo.Dec)
	}
	if !mo.Linked {
		fail("model-vs-impl", "a constructor-built object is not `linked` in the model", d, nil)
	}
	if mo.Width != orig.EncodedWidth() {
		fail("model-vs-impl", "EncodedWidth", orig.EncodedWidth(), mo.Width)
	}
	if mo.Validate != valid {
		fail("model-vs-impl", "Validate", valid, mo.Validate)
	}
	if mo.DecValidate != nil && *mo.DecValidate != (dec.Validate() == nil) {
		fail("model-vs-impl", "Validate of the decoded object", dec.Validate() == nil, *mo.DecValidate)
	}
	if !mo.HasModel {
		fail("model-vs-impl", "object has no behavioural model (toEx = none)", d, nil)
	} else {
		if mo.Shift == nil || *mo.Shift != fmt.Sprint(int64(orig.Shift())) {
			fail("model-vs-impl", "Shift", fmt.Sprint(int64(orig.Shift())), mo.Shift)
		}
		if mo.IsConstant == nil || *mo.IsConstant != orig.IsConstant() {
			fail("model-vs-impl", "IsConstant", orig.IsConstant(), mo.IsConstant)
		}
	}
	return nil
}
