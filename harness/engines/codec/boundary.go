package codec

// Boundary cases between "empty" and "absent" for every message type and every field: nil
// vs empty-but-non-nil slices / maps / ByteMaps, "" strings, zero numbers, zero time, false,
// nil vs pointer-to-zero-struct, nil / empty elements inside slices of slices — each alone on
// a fully populated message, in adjacent pairs, and all together.  Enumerated by reflection
// over prototype messages, so a field added to a message struct is covered without touching
// this file.  They run as fixed cases (indices >= fixedBase) at the start of mode msg.

import (
	"fmt"
	"reflect"
	"sort"
	"time"

	"github.com/getlantern/bytemap"
	"github.com/getlantern/wal"
	"github.com/getlantern/zenodb/common"
	"github.com/getlantern/zenodb/core"
	"github.com/getlantern/zenodb/encoding"
	"github.com/getlantern/zenodb/expr"
	"github.com/getlantern/zenodb/rpc"
)

type boundaryCase struct {
	label string
	orig  interface{}
	fresh func() interface{}
}

// protos: fully populated messages (every field non-zero, every slice/map non-empty).
var protos = []struct {
	name string
	full func() interface{}
	zero func() interface{}
}{
	{"Insert", func() interface{} {
		return &rpc.Insert{Stream: "s", TS: 5, Dims: bytemap.New(map[string]interface{}{"d": "x"}), Vals: bytemap.NewFloat(map[string]float64{"a": 1}), EndOfInserts: true}
	}, func() interface{} { return &rpc.Insert{} }},
	{"InsertReport", func() interface{} {
		return &rpc.InsertReport{Received: 3, Succeeded: 2, Errors: map[int]string{1: "Need at least one dim"}}
	}, func() interface{} { return &rpc.InsertReport{} }},
	{"Query", func() interface{} {
		return &rpc.Query{SQLString: "SELECT * FROM t", IsSubQuery: true, SubQueryResults: [][]interface{}{{"x", int64(-2)}, {true}}, IncludeMemStore: true,
			Unflat: true, Deadline: time.Unix(1583064000, 7).UTC(), HasDeadline: true}
	}, func() interface{} { return &rpc.Query{} }},
	{"Point", func() interface{} { return &rpc.Point{Data: []byte{1, 2, 3}, Offset: wal.NewOffset(4, 5)} }, func() interface{} { return &rpc.Point{} }},
	{"SourceInfo", func() interface{} { return &rpc.SourceInfo{ID: 7} }, func() interface{} { return &rpc.SourceInfo{} }},
	{"RegisterQueryHandler", func() interface{} { return &rpc.RegisterQueryHandler{Partition: 3} }, func() interface{} { return &rpc.RegisterQueryHandler{} }},
	{"RemoteQueryResult", func() interface{} {
		return &rpc.RemoteQueryResult{
			Fields: core.Fields{core.NewField("a", expr.SUM("a"))},
			Key:    bytemap.New(map[string]interface{}{"d": "x"}),
			Vals:   core.Vals{encoding.Sequence{1, 2, 3, 4, 5, 6, 7, 8, 1, 0, 0, 0, 0, 0, 0, 0, 0}, encoding.Sequence{9}},
			Row:    &core.FlatRow{TS: 9, Key: bytemap.New(map[string]interface{}{"d": "y"}), Values: []float64{1.5, -2}},
			Stats:  &common.QueryStats{NumPartitions: 2, NumSuccessfulPartitions: 1, LowestHighWaterMark: 3, HighestHighWaterMark: 4, MissingPartitions: []int{1}},
			Error:  "boom", EndOfResults: true}
	}, func() interface{} { return &rpc.RemoteQueryResult{} }},
	{"Follow", func() interface{} {
		return &common.Follow{FollowerID: common.FollowerID{Partition: 1, ID: 2}, Stream: "s", EarliestOffset: wal.NewOffset(1, 2),
			Partitions: map[string]*common.Partition{"p": {Keys: []string{"d"}, Tables: []*common.PartitionTable{{Name: "t", Offsets: common.OffsetsBySource{0: wal.NewOffset(3, 4)}}}}}}
	}, func() interface{} { return &common.Follow{} }},
	{"QueryMetaData", func() interface{} {
		return &common.QueryMetaData{FieldNames: []string{"a", "b"}, AsOf: time.Unix(1583064000, 0).UTC(), Until: time.Unix(1583067600, 5).UTC(), Resolution: time.Second, Plan: "plan"}
	}, func() interface{} { return &common.QueryMetaData{} }},
}

// fieldPaths lists the index paths of exported fields, descending into structs and
// pointers to structs (not into time.Time).
func fieldPaths(t reflect.Type, prefix []int, names string, depth int) (paths [][]int, labels []string) {
	for i := 0; i < t.NumField(); i++ {
		f := t.Field(i)
		if f.PkgPath != "" {
			continue
		}
		p := append(append([]int(nil), prefix...), i)
		n := names + "." + f.Name
		paths = append(paths, p)
		labels = append(labels, n)
		ft := f.Type
		if ft.Kind() == reflect.Ptr {
			ft = ft.Elem()
		}
		if ft.Kind() == reflect.Struct && ft != timeT && depth < 2 {
			sp, sl := fieldPaths(ft, p, n, depth+1)
			paths = append(paths, sp...)
			labels = append(labels, sl...)
		}
	}
	return
}

// at walks an index path through pointers; ok=false if a pointer on the way is nil.
func at(v reflect.Value, path []int) (reflect.Value, bool) {
	for _, i := range path {
		for v.Kind() == reflect.Ptr {
			if v.IsNil() {
				return v, false
			}
			v = v.Elem()
		}
		v = v.Field(i)
	}
	return v, true
}

// boundaryValues of a field: label -> setter.
func boundaryValues(t reflect.Type) map[string]func(reflect.Value) {
	out := map[string]func(reflect.Value){"zero": func(v reflect.Value) { v.Set(reflect.Zero(t)) }}
	switch t.Kind() {
	case reflect.Slice:
		out["empty"] = func(v reflect.Value) { v.Set(reflect.MakeSlice(t, 0, 0)) }
		if ek := t.Elem().Kind(); ek == reflect.Slice || ek == reflect.Ptr || ek == reflect.Interface {
			out["elems-zero-empty"] = func(v reflect.Value) {
				s := reflect.MakeSlice(t, 3, 3)
				if ek == reflect.Slice {
					s.Index(1).Set(reflect.MakeSlice(t.Elem(), 0, 0))
					s.Index(2).Set(reflect.MakeSlice(t.Elem(), 0, 0))
				}
				v.Set(s)
			}
		}
	case reflect.Map:
		out["empty"] = func(v reflect.Value) { v.Set(reflect.MakeMap(t)) }
	case reflect.Ptr:
		out["ptr-to-zero"] = func(v reflect.Value) { v.Set(reflect.New(t.Elem())) }
	}
	return out
}

func sortedKeys(m map[string]func(reflect.Value)) []string {
	ks := make([]string, 0, len(m))
	for k := range m {
		ks = append(ks, k)
	}
	sort.Strings(ks)
	return ks
}

func boundaryCases() []boundaryCase {
	var out []boundaryCase
	for _, pr := range protos {
		pr := pr
		typ := reflect.TypeOf(pr.full()).Elem()
		paths, labels := fieldPaths(typ, nil, pr.name, 0)
		out = append(out, boundaryCase{pr.name + ": all fields zero", pr.zero(), pr.zero})
		// every slice / map / pointer empty-but-non-nil at once
		allEmpty := pr.full()
		for _, p := range paths {
			if f, ok := at(reflect.ValueOf(allEmpty), p); ok {
				if set := boundaryValues(f.Type())["empty"]; set != nil {
					set(f)
				} else if f.Kind() == reflect.String {
					f.SetString("")
				}
			}
		}
		out = append(out, boundaryCase{pr.name + ": every slice, map and string empty (non-nil)", allEmpty, pr.zero})
		for i, p := range paths {
			fi, ok := at(reflect.ValueOf(pr.full()), p)
			if !ok {
				continue
			}
			for _, bl := range sortedKeys(boundaryValues(fi.Type())) {
				m := pr.full()
				f, _ := at(reflect.ValueOf(m), p)
				boundaryValues(f.Type())[bl](f)
				out = append(out, boundaryCase{fmt.Sprintf("%s = %s", labels[i], bl), m, pr.zero})
				// in combination with the next field at each of its boundary values
				if i+1 < len(paths) {
					if fj, ok := at(reflect.ValueOf(pr.full()), paths[i+1]); ok {
						for _, bl2 := range sortedKeys(boundaryValues(fj.Type())) {
							m2 := pr.full()
							f1, ok1 := at(reflect.ValueOf(m2), p)
							if !ok1 {
								continue
							}
							boundaryValues(f1.Type())[bl](f1)
							f2, ok2 := at(reflect.ValueOf(m2), paths[i+1])
							if !ok2 {
								continue
							}
							boundaryValues(f2.Type())[bl2](f2)
							out = append(out, boundaryCase{fmt.Sprintf("%s = %s, %s = %s", labels[i], bl, labels[i+1], bl2), m2, pr.zero})
						}
					}
				}
			}
		}
	}
	// the messages the follower really sends (rpc_client.ProcessRemoteQuery), at their boundaries
	emptyKey := bytemap.New(map[string]interface{}{})
	for _, c := range []struct {
		label string
		m     *rpc.RemoteQueryResult
	}{
		{"unflat row, key with zero dims (empty, non-nil), two series", &rpc.RemoteQueryResult{Key: emptyKey, Vals: core.Vals{encoding.Sequence{1, 2, 3, 4, 5, 6, 7, 8, 1, 0, 0, 0, 0, 0, 0, 0, 0}, nil}}},
		{"unflat row, empty key, empty Vals", &rpc.RemoteQueryResult{Key: emptyKey, Vals: core.Vals{}}},
		{"unflat row, empty key, nil Vals", &rpc.RemoteQueryResult{Key: bytemap.ByteMap{}}},
		{"unflat row, non-empty key, Vals of nil and empty series", &rpc.RemoteQueryResult{Key: bytemap.New(map[string]interface{}{"d": "x"}), Vals: core.Vals{nil, encoding.Sequence{}, nil}}},
		{"flat row with zero values and empty key", &rpc.RemoteQueryResult{Row: &core.FlatRow{Key: emptyKey, Values: []float64{}}}},
		{"flat row with nil values, zero TS", &rpc.RemoteQueryResult{Row: &core.FlatRow{Key: emptyKey}}},
		{"flat row, all values 0", &rpc.RemoteQueryResult{Row: &core.FlatRow{TS: 1, Key: bytemap.New(map[string]interface{}{"d": ""}), Values: []float64{0, 0}}}},
		{"field list with zero fields (non-nil)", &rpc.RemoteQueryResult{Fields: core.Fields{}}},
		{"end of results, no stats, no error", &rpc.RemoteQueryResult{EndOfResults: true}},
		{"end of results, zero stats, empty error", &rpc.RemoteQueryResult{Stats: &common.QueryStats{}, EndOfResults: true, Error: ""}},
		{"end of results, stats with empty MissingPartitions", &rpc.RemoteQueryResult{Stats: &common.QueryStats{MissingPartitions: []int{}}, EndOfResults: true}},
	} {
		out = append(out, boundaryCase{"RemoteQueryResult as sent: " + c.label, c.m, func() interface{} { return &rpc.RemoteQueryResult{} }})
	}
	return out
}
