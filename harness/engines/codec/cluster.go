package codec

// Cluster part of mode e2e: a Passthrough leader (real zenodb.DB, NumPartitions = 1, served by
// rpcserver on 127.0.0.1) and one follower database.  For every query the follower registers
// through the real remote-query stream (rpc client.ProcessRemoteQuery -> rpcserver
// HandleRemoteQueries -> leader.RegisterQueryHandler) and the leader's own queryCluster
// (cluster_query.go) sends the query, receives field list / rows / final stats over RPC and
// tells the message kinds apart.  The answer must equal the follower's in-process answer.
//
// The data is sparse: many points lack some or all of the dimensions a query groups by, so
// partition-side rows with an EMPTY key (zero dims, non-nil ByteMap) cross the boundary in
// non-pushdown queries (unflat rows) and in pushdown queries (flat rows).

import (
	"context"
	"fmt"
	"math"
	"os"
	"strings"
	"sync"
	"time"

	"github.com/getlantern/bytemap"
	"github.com/getlantern/zenodb"
	"github.com/getlantern/zenodb/common"
	"github.com/getlantern/zenodb/core"
	"github.com/getlantern/zenodb/planner"
	"github.com/getlantern/zenodb/rpc"

	"zvh/hk"
)

const clusterTableSQL = `SELECT SUM(a) AS sa, COUNT(a) AS ca, MAX(b) AS mxb FROM cin GROUP BY k, d, g, period(1s)`

// leaderDB is the leader behind rpcserver: the real database, plus a signal when a follower's
// handler has been registered (so that the query is not sent before the follower is there).
type leaderDB struct {
	*zenodb.DB
	registered chan struct{}
}

func (l *leaderDB) RegisterQueryHandler(partition int, query planner.QueryClusterFN) {
	l.DB.RegisterQueryHandler(partition, query)
	l.registered <- struct{}{}
}

type clusterEnv struct {
	dir      string
	leader   *leaderDB
	follower *zenodb.DB
	fclient  rpc.Client
	stop     func()
	pending  int // handlers registered and not yet used
	wg       sync.WaitGroup
	// failAfter >= 0: the follower's next query fails after that many rows (a deadline or
	// the memory cap hitting the follower mid-query); -1: it runs to the end
	failAfter int
	failed    bool
}

var errFollowerSide = fmt.Errorf("zvh: follower-side failure (deadline exceeded / out of memory) mid-query")

func (c *clusterEnv) close() {
	if c == nil {
		return
	}
	if c.fclient != nil {
		c.fclient.Close()
	}
	if c.stop != nil {
		c.stop()
	}
	done := make(chan struct{})
	go func() { c.wg.Wait(); close(done) }()
	select {
	case <-done:
	case <-time.After(3 * time.Second):
	}
	if c.leader != nil {
		c.leader.DB.Close()
	}
	if c.follower != nil {
		c.follower.Close()
	}
	os.RemoveAll(c.dir)
}

func setupCluster(seed uint64) (*clusterEnv, error) {
	c := &clusterEnv{failAfter: -1}
	var err error
	if c.dir, err = os.MkdirTemp("", "zvh-*"); err != nil {
		return nil, err
	}
	mk := func(name string, o *zenodb.DBOpts) (*zenodb.DB, error) {
		o.Dir = c.dir + "/" + name
		o.IterationCoalesceInterval = time.Millisecond
		db, err := zenodb.NewDB(o)
		if err != nil {
			return nil, err
		}
		if err := db.CreateTable(&zenodb.TableOpts{Name: "tc", RetentionPeriod: time.Hour, SQL: clusterTableSQL, PartitionBy: []string{"k"}}); err != nil {
			return nil, err
		}
		return db, nil
	}
	ldb, err := mk("leader", &zenodb.DBOpts{Passthrough: true, NumPartitions: 1, ClusterQueryConcurrency: 4, ClusterQueryTimeout: 20 * time.Second})
	if err != nil {
		c.close()
		return nil, err
	}
	c.leader = &leaderDB{DB: ldb, registered: make(chan struct{}, 16)}
	if c.follower, err = mk("follower", &zenodb.DBOpts{}); err != nil {
		c.close()
		return nil, err
	}
	addr, stop, err := serve(c.leader)
	if err != nil {
		c.close()
		return nil, err
	}
	c.stop = stop
	if c.fclient, err = rpc.Dial(addr, &rpc.ClientOpts{Password: "pw"}); err != nil {
		c.close()
		return nil, err
	}
	// sparse points: every subset of the dimensions {k, d, g} occurs, k (the partition key) too
	r := hk.Derive(seed, 0xC1)
	base := time.Now().Truncate(time.Second).Add(-40 * time.Second)
	n := 0
	for i := 0; i < 90; i++ {
		dims := map[string]interface{}{}
		mask := i % 8
		if mask&1 != 0 {
			dims["k"] = r.Range(1, 3)
		}
		if mask&2 != 0 {
			dims["d"] = hk.Pick(r, []string{"x", "y", ""})
		}
		if mask&4 != 0 {
			dims["g"] = hk.Pick(r, []interface{}{"1", 2, true})
		}
		if len(dims) == 0 {
			dims["other"] = "o" // a point needs a dimension; none that the table keeps
		}
		vals := map[string]interface{}{"a": float64(r.Range(-3, 9))}
		if r.Bool() {
			vals["b"] = float64(r.Range(0, 8)) / 2
		}
		if err := c.follower.Insert("cin", base.Add(time.Duration(r.Range(0, 9999))*time.Millisecond), dims, vals); err != nil {
			c.close()
			return nil, err
		}
		n++
	}
	deadline := time.Now().Add(20 * time.Second)
	for {
		a := c.inProcess("SELECT _points FROM tc GROUP BY _")
		total := 0.0
		for _, row := range a.rows {
			for _, v := range row.Vals {
				var bits uint64
				fmt.Sscanf(v, "f%x", &bits)
				total += math.Float64frombits(bits)
			}
		}
		if total == float64(n) {
			break
		}
		if time.Now().After(deadline) {
			c.close()
			return nil, fmt.Errorf("cluster follower saw %v of %d points after 20s", total, n)
		}
		time.Sleep(50 * time.Millisecond)
	}
	return c, nil
}

func iterateAnswer(src core.FlatRowSource) (a answer) {
	ctx, cancel := context.WithTimeout(context.Background(), 30*time.Second)
	defer cancel()
	var st interface{}
	defer func() {
		if qs, ok := st.(*common.QueryStats); ok && qs != nil {
			a.stats = qs
		}
	}()
	st, a.err = src.Iterate(ctx, func(fs core.Fields) error {
		for _, f := range fs {
			a.fields = append(a.fields, f.String())
			a.names = append(a.names, f.Name)
		}
		return nil
	}, func(row *core.FlatRow) (bool, error) {
		a.rows = append(a.rows, mkFlat(row))
		return true, nil
	})
	return
}

func (c *clusterEnv) inProcess(sql string) (a answer) {
	src, err := c.follower.Query(sql, false, nil, true)
	if err != nil {
		a.err = err
		return
	}
	return iterateAnswer(src)
}

// followerQuery is zenodb.(*DB).queryForRemote on the follower database.
func (c *clusterEnv) followerQuery(ctx context.Context, sqlString string, isSubQuery bool, subQueryResults [][]interface{}, unflat bool,
	onFields core.OnFields, onRow core.OnRow, onFlatRow core.OnFlatRow) (interface{}, error) {
	source, err := c.follower.Query(sqlString, isSubQuery, subQueryResults, common.ShouldIncludeMemStore(ctx))
	if err != nil {
		return nil, err
	}
	if c.failAfter >= 0 {
		left := c.failAfter
		trip := func() error {
			if left == 0 {
				c.failed = true
				return errFollowerSide
			}
			left--
			return nil
		}
		if onRow != nil {
			inner := onRow
			onRow = func(key bytemap.ByteMap, vals core.Vals) (bool, error) {
				if err := trip(); err != nil {
					return false, err
				}
				return inner(key, vals)
			}
		}
		if onFlatRow != nil {
			inner := onFlatRow
			onFlatRow = func(row *core.FlatRow) (bool, error) {
				if err := trip(); err != nil {
					return false, err
				}
				return inner(row)
			}
		}
	}
	if unflat {
		return core.UnflattenOptimized(source).Iterate(ctx, onFields, onRow)
	}
	return source.Iterate(ctx, onFields, onFlatRow)
}

// viaLeader answers the query through the leader; infra != nil when the follower could not
// register.
func (c *clusterEnv) viaLeader(sql string) (a answer, plan string, infra error) {
	if c.pending == 0 {
		c.wg.Add(1)
		go func() {
			defer c.wg.Done()
			c.fclient.ProcessRemoteQuery(context.Background(), 0, c.followerQuery, 30*time.Second)
		}()
		select {
		case <-c.leader.registered:
			c.pending++
		case <-time.After(10 * time.Second):
			return a, "", fmt.Errorf("the follower's query handler did not reach the leader within 10s")
		}
	}
	src, err := c.leader.Query(sql, false, nil, true)
	if err != nil {
		a.err = err // refused while planning: the registered handler stays for the next query
		return
	}
	plan = core.FormatSource(src)
	a = iterateAnswer(src)
	c.pending--
	return
}

var clusterQueries = []string{
	// non-pushdown (GROUP BY drops the partition key): unflat rows; points lacking d have the empty key
	"SELECT sa AS f0 FROM tc GROUP BY d",
	"SELECT sa AS f0, ca AS f1 FROM tc GROUP BY d, g",
	"SELECT sa AS f0 FROM tc GROUP BY g, period(2s)",
	// everything under one (empty) key
	"SELECT sa AS f0, mxb AS f1 FROM tc GROUP BY _",
	"SELECT ca AS f0 FROM tc GROUP BY period(5s)",
	// pushdown (partition key kept): flat rows; points lacking k have the empty key
	"SELECT sa AS f0 FROM tc GROUP BY k",
	"SELECT sa AS f0, ca AS f1 FROM tc GROUP BY k, d",
	"SELECT * FROM tc GROUP BY *",
	// non-pushdown for other reasons
	"SELECT sa AS f0 FROM tc GROUP BY d HAVING f0 > 0",
	"SELECT sa AS f0 FROM tc GROUP BY d, CROSSTAB(g)",
	"SELECT sa AS f0 FROM tc WHERE d = 'x' GROUP BY g ORDER BY f0 DESC",
}

func genClusterQuery(r *hk.Rng) string {
	sel := hk.Pick(r, []string{"sa AS f0", "ca AS f0", "mxb AS f0, sa AS f1", "sa AS f0, ca AS f1, mxb AS f2", "(sa / ca) AS f0", "_points AS f0"})
	sql := "SELECT " + sel + " FROM tc"
	if r.Chance(1, 4) {
		sql += " WHERE " + hk.Pick(r, []string{"d = 'x'", "d <> 'x'", "g = '1'", "k = 2", "d = ''"})
	}
	var gb []string
	for _, d := range []string{"k", "d", "g"} {
		if r.Chance(2, 5) {
			gb = append(gb, d)
		}
	}
	switch r.Intn(3) {
	case 0:
		gb = append(gb, hk.Pick(r, []string{"period(2s)", "period(5s)", "period(10s)"}))
	case 1:
		if len(gb) == 0 {
			gb = append(gb, "_")
		}
	}
	if len(gb) > 0 {
		sql += " GROUP BY " + strings.Join(gb, ", ")
	}
	return sql
}

func clusterCase(ctx *hk.RunCtx, c *clusterEnv, idx uint64, sql string) {
	cs := map[string]interface{}{"mode": "e2e", "cluster": true, "sql": sql}
	fail := func(detail string, impl, want interface{}) {
		ctx.Res.Disagree(hk.Disagreement{Kind: "property", Case: cs, Impl: impl, Model: want, Detail: printable(detail), PropertyFails: true, Index: idx})
	}
	// The databases run on the wall clock and period(Ns) buckets are aligned to "now" rounded
	// to the table's resolution: the in-process answer is taken before and after the cluster
	// query and the case is repeated when a second boundary fell in between.
	var want, got answer
	var plan string
	var infra error
	stable := false
	for attempt := 0; attempt < 5 && !stable; attempt++ {
		want = c.inProcess(sql)
		got, plan, infra = c.viaLeader(sql)
		if infra != nil {
			ctx.Res.Inconclusive++
			ctx.Res.Note("e2e cluster: %v", infra)
			return
		}
		after := c.inProcess(sql)
		stable = (want.err != nil) == (after.err != nil) && rowsString(want.rows, false) == rowsString(after.rows, false)
		if !stable {
			ctx.Res.Hit("cluster-case-repeated (clock ticked during the case)")
		}
	}
	if !stable {
		ctx.Res.Inconclusive++
		ctx.Res.Note("e2e cluster: in-process answer not stable over five attempts: %s", sql)
		return
	}
	if want.err != nil || got.err != nil {
		ctx.Res.Hit("cluster-query-rejected")
		ctx.Res.Count(cs, false)
		if (want.err == nil) != (got.err == nil) {
			fail(fmt.Sprintf("the query fails on one side only: in-process %v, through the leader %v", want.err, got.err), nil, nil)
		}
		return
	}
	emptyKey := false
	for _, r := range want.rows {
		if r.Key == "" {
			emptyKey = true
		}
	}
	ctx.Res.Count(cs, len(want.rows) > 0)
	ctx.Res.Hit("cluster-query")
	if emptyKey {
		ctx.Res.Hit("cluster-query:has-row-with-empty-key")
	}
	if os.Getenv("ZVH_C20_DEBUG") != "" {
		fmt.Fprintf(os.Stderr, "%s\n%s\n", sql, plan)
	}
	if strings.Contains(plan, "cluster flat") {
		ctx.Res.Hit("cluster-plan:pushdown (flat rows)")
	} else {
		ctx.Res.Hit("cluster-plan:non-pushdown (leader regroups unflat rows)")
	}
	if strings.Join(got.names, ",") != strings.Join(want.names, ",") {
		fail("field names through the leader differ from the in-process ones", got.names, want.names)
		return
	}
	if g, w := rowsString(got.rows, false), rowsString(want.rows, false); g != w {
		fail(fmt.Sprintf("the cluster (leader -> follower over rpc) returns %d rows, the same query in-process on the follower %d; rows differ", len(got.rows), len(want.rows)), g, w)
	}
}

const clusterBase = uint64(1) << 42

// runCluster: the fixed cluster queries and nGen generated ones (or the single case `only`).
func runCluster(ctx *hk.RunCtx, nGen int, only *uint64) {
	var c *clusterEnv
	var err error
	for attempt := 0; attempt < 2; attempt++ {
		if c, err = setupCluster(ctx.Seed); err == nil {
			break
		}
	}
	if err != nil {
		ctx.Res.Inconclusive++
		ctx.Res.Note("e2e cluster: setup failed twice: %v", err)
		return
	}
	defer c.close()
	one := func(idx uint64) {
		i := idx - clusterBase
		if i < uint64(len(clusterQueries)) {
			clusterCase(ctx, c, idx, clusterQueries[i])
			// the same query with a follower that fails at once / after two rows
			clusterFailCase(ctx, c, idx, clusterQueries[i], int(i%2)*2)
			return
		}
		r := hk.Derive(ctx.Seed, idx)
		sql := genClusterQuery(r)
		if r.Chance(1, 3) {
			clusterFailCase(ctx, c, idx, sql, r.Intn(4))
			return
		}
		clusterCase(ctx, c, idx, sql)
	}
	if only != nil {
		one(*only)
		return
	}
	for i := 0; i < len(clusterQueries)+nGen; i++ {
		one(clusterBase + uint64(i))
	}
}

// clusterFailCase: the follower's query fails after `after` rows.  The leader must surface
// that as an error or as a missing partition — never as a complete-looking, smaller answer.
func clusterFailCase(ctx *hk.RunCtx, c *clusterEnv, idx uint64, sql string, after int) {
	cs := map[string]interface{}{"mode": "e2e", "cluster": true, "sql": sql, "follower_fails_after_rows": after}
	want := c.inProcess(sql)
	if want.err != nil {
		return
	}
	c.failAfter, c.failed = after, false
	got, _, infra := c.viaLeader(sql)
	c.failAfter = -1
	if infra != nil {
		ctx.Res.Inconclusive++
		ctx.Res.Note("e2e cluster: %v", infra)
		return
	}
	if !c.failed {
		// the partition produced fewer rows than `after`: nothing failed
		ctx.Res.Hit("cluster-fail-case:not-reached")
		return
	}
	ctx.Res.Count(cs, true)
	ctx.Res.Hit("cluster-fail-case")
	missing := got.stats != nil && (len(got.stats.MissingPartitions) > 0 || got.stats.NumSuccessfulPartitions < got.stats.NumPartitions)
	switch {
	case got.err != nil:
		ctx.Res.Hit("cluster-fail-case:leader-returns-error")
	case missing:
		ctx.Res.Hit("cluster-fail-case:leader-reports-missing-partition")
	default:
		ctx.Res.Disagree(hk.Disagreement{Kind: "property", Case: cs, Impl: fmt.Sprintf("%d rows, error nil, stats %+v", len(got.rows), got.stats),
			Model:         fmt.Sprintf("in-process: %d rows", len(want.rows)),
			Detail:        fmt.Sprintf("the follower's query failed after %d rows and reported its error over rpc; the leader returns %d rows (in-process: %d) with no error and no missing partition: a partial answer presented as complete", after, len(got.rows), len(want.rows)),
			PropertyFails: true, Index: idx})
	}
}
