package cluster

import (
	"context"
	"encoding/json"
	"fmt"
	"sort"
	"time"

	"github.com/getlantern/bytemap"
	"github.com/getlantern/zenodb"
	"github.com/getlantern/zenodb/core"
	"github.com/getlantern/zenodb/encoding"

	"zvh/dbk"
	"zvh/gen"
	"zvh/hk"
)

// Semantic content of a raw table scan: (key, period end, field) -> decoded state, for the
// periods whose state has at least one cell set (same rendering as the store engine uses to
// compare a table with the Lean raw-point spec `specTable`).

func isUnset(cells []interface{}) bool {
	for _, c := range cells {
		m, ok := c.(map[string]interface{})
		if !ok {
			continue
		}
		for _, v := range m {
			if v != nil {
				return false
			}
		}
	}
	return true
}

func addSeq(out map[string]string, ks string, fi int, n *gen.Node, s encoding.Sequence, res time.Duration) {
	if len(s) == 0 {
		return
	}
	w := n.Build().EncodedWidth()
	for p := 0; p < s.NumPeriods(w); p++ {
		end := s.UntilInt() - int64(p)*int64(res)
		cells, _ := n.DecodeCells(s[8+p*w : 8+(p+1)*w])
		if isUnset(cells) {
			continue
		}
		b, _ := json.Marshal(cells)
		out[fmt.Sprintf("%s|%d|%d", ks, end, fi)] = string(b)
	}
}

func scanView(db *zenodb.DB, t *TableDef) (map[string]string, error) {
	out := map[string]string{}
	fields := t.S.AllFields()
	err := db.VerifIterate(context.Background(), t.S.Table, nil, true, func(key bytemap.ByteMap, vals []encoding.Sequence) (bool, error) {
		ks := dbk.KeyString(key.AsMap())
		for i, f := range fields {
			if i < len(vals) {
				addSeq(out, ks, i, f.Node, vals[i], t.S.Res)
			}
		}
		return true, nil
	})
	return out, err
}

func modelKeyString(m map[string]interface{}) string {
	ks := make([]string, 0, len(m))
	for k := range m {
		ks = append(ks, k)
	}
	sort.Strings(ks)
	out := ""
	for _, k := range ks {
		out += fmt.Sprintf("%s=%s;", k, m[k])
	}
	return out
}

// specView evaluates the Lean raw-point spec (engine "spec", Model/Spec.lean) on the points.
func specView(ctx *hk.RunCtx, t *TableDef, pts []dbk.Point) (map[string]string, error) {
	mp := make([]interface{}, len(pts))
	for i, p := range pts {
		mp[i] = p.ModelJSON(t.where)
	}
	sout, err := ctx.Model.Call(map[string]interface{}{"engine": "spec", "cfg": t.S.CfgJSON(), "points": mp, "dup": false})
	if err != nil {
		return nil, err
	}
	var sp struct {
		Rows []struct {
			Key    map[string]interface{} `json:"key"`
			Period string                 `json:"period"`
			Cells  [][]interface{}        `json:"cells"`
		} `json:"rows"`
	}
	if err := json.Unmarshal(sout, &sp); err != nil {
		return nil, err
	}
	v := map[string]string{}
	for _, r := range sp.Rows {
		var period int64
		fmt.Sscan(r.Period, &period)
		ks := modelKeyString(r.Key)
		for fi, cells := range r.Cells {
			if isUnset(cells) {
				continue
			}
			b, _ := json.Marshal(cells)
			v[fmt.Sprintf("%s|%d|%d", ks, period, fi)] = string(b)
		}
	}
	return v, nil
}

func diffViews(a, b map[string]string) string {
	var ks []string
	for k := range a {
		ks = append(ks, k)
	}
	sort.Strings(ks)
	for _, k := range ks {
		if w, ok := b[k]; !ok {
			return fmt.Sprintf("%s: %s vs <absent>", k, a[k])
		} else if w != a[k] {
			return fmt.Sprintf("%s: %s vs %s", k, a[k], w)
		}
	}
	ks = ks[:0]
	for k := range b {
		ks = append(ks, k)
	}
	sort.Strings(ks)
	for _, k := range ks {
		if _, ok := a[k]; !ok {
			return fmt.Sprintf("%s: <absent> vs %s", k, b[k])
		}
	}
	return ""
}

// ---------------------------------------------------------------- flat queries

type flatRow struct {
	TS     int64
	Key    map[string]interface{}
	Values []float64
}

func runQuery(db *zenodb.DB, sqlText string, timeout time.Duration) (fields []string, rows []flatRow, err error) {
	if pn := hk.Recover(func() {
		var src core.FlatRowSource
		src, err = db.Query(sqlText, false, nil, true)
		if err != nil {
			return
		}
		ctx, cancel := context.WithTimeout(context.Background(), timeout)
		defer cancel()
		_, err = src.Iterate(ctx, func(fs core.Fields) error {
			fields = fs.Names()
			return nil
		}, func(row *core.FlatRow) (bool, error) {
			vals := append([]float64(nil), row.Values...)
			rows = append(rows, flatRow{TS: row.TS, Key: row.Key.AsMap(), Values: vals})
			return true, nil
		})
	}); pn != nil {
		err = fmt.Errorf("panic: %v", pn)
	}
	return
}

func rowID(r flatRow) string { return fmt.Sprintf("%s@%d", dbk.KeyString(r.Key), r.TS) }

func valsEqual(a, b []float64, tol float64) bool {
	if len(a) != len(b) {
		return false
	}
	for i := range a {
		if a[i] == b[i] || (a[i] != a[i] && b[i] != b[i]) {
			continue
		}
		d := a[i] - b[i]
		if d < 0 {
			d = -d
		}
		m := a[i]
		if m < 0 {
			m = -m
		}
		if bb := b[i]; bb < 0 && -bb > m {
			m = -bb
		} else if bb > m {
			m = bb
		}
		if tol == 0 || d > tol*m {
			return false
		}
	}
	return true
}

func rowText(r flatRow) string { return fmt.Sprintf("%s %v", rowID(r), r.Values) }

// multisetDiff compares two row lists as multisets of (key, time, values).
func multisetDiff(a, b []flatRow, tol float64) string {
	used := make([]bool, len(b))
	idx := map[string][]int{}
	for i, r := range b {
		idx[rowID(r)] = append(idx[rowID(r)], i)
	}
	for _, r := range a {
		found := false
		for _, i := range idx[rowID(r)] {
			if !used[i] && valsEqual(r.Values, b[i].Values, tol) {
				used[i] = true
				found = true
				break
			}
		}
		if !found {
			other := ""
			for _, i := range idx[rowID(r)] {
				other += " " + fmt.Sprint(b[i].Values)
			}
			if other == "" {
				return "cluster row " + rowText(r) + " is not in the standalone result"
			}
			return "cluster row " + rowText(r) + " has standalone values" + other
		}
	}
	for i, r := range b {
		if !used[i] {
			return "standalone row " + rowText(r) + " is missing from the cluster result"
		}
	}
	return ""
}
