package cluster

import (
	"context"
	"errors"
	"fmt"
	"io"
	"os"
	"path/filepath"
	"reflect"
	"runtime/pprof"
	"sort"
	"strings"
	"sync"
	"sync/atomic"
	"time"

	"github.com/getlantern/goexpr"
	"github.com/getlantern/wal"
	"github.com/getlantern/zenodb"
	"github.com/getlantern/zenodb/common"
	"github.com/getlantern/zenodb/core"
	"github.com/getlantern/zenodb/planner"

	"zvh/dbk"
)

// ---------------------------------------------------------------- event log

// Ev is one event of the trace (emitted by the code through the verif hooks, or by the
// harness for the actions it performs itself: insert, cut, stop, start, snapshot, restore).
type Ev struct {
	Name  string   `json:"ev"`
	Table string   `json:"table,omitempty"`
	L     int      `json:"l,omitempty"`   // leader id (source)
	FP    int      `json:"fp,omitempty"`  // follower partition
	F     int      `json:"f,omitempty"`   // follower id
	Off   string   `json:"off,omitempty"` // wal offset "seq:pos"
	Off2  string   `json:"off2,omitempty"`
	Off3  string   `json:"off3,omitempty"`
	Keys  string   `json:"keys,omitempty"`
	Flag  bool     `json:"flag,omitempty"`
	Incl  []string `json:"incl,omitempty"`  // included followers "p.id" (with repetitions)
	Pids  []string `json:"pids,omitempty"`  // "keys=pid"
	Where []string `json:"where,omitempty"` // tables whose WHERE passed (as the leader saw it)
	Idx   int      `json:"idx,omitempty"`   // insert: index of the point
}

type evlog struct {
	mu  sync.Mutex
	evs []Ev
	// quiescence trackers (offsets as comparable keys)
	routeSeen map[int]map[string]bool // leader -> distinct offsets routed
	routeLast map[int]string          // leader -> offset of the last route event
	routeMax  map[int]wal.Offset      // leader -> highest offset routed
	inclLast  map[string]string       // "L>p.id" -> last offset routed including that follower since its join
	doneLast  map[string]string       // "L>p.id" -> last msgdone offset since its join
	fwdLast   map[string]string       // "p.id/table/L" -> last forwarded offset
	applyLast map[string]string       // "p.id/table/L" -> last applied offset
	joins     map[string]int          // "L>p.id" -> number of joins seen
	reqs      map[string]int          // "L>p.id" -> Follow requests the leader has not handled yet
	rewinds   map[int]int             // leader -> number of rewinds
}

func newEvlog() *evlog {
	return &evlog{routeSeen: map[int]map[string]bool{}, routeLast: map[int]string{}, routeMax: map[int]wal.Offset{},
		inclLast: map[string]string{}, doneLast: map[string]string{}, fwdLast: map[string]string{}, applyLast: map[string]string{},
		joins: map[string]int{}, rewinds: map[int]int{}, reqs: map[string]int{}}
}

func offStr(v interface{}) string {
	switch o := v.(type) {
	case wal.Offset:
		if len(o) == 0 {
			return "0:0"
		}
		return o.String()
	case nil:
		return "0:0"
	}
	return fmt.Sprint(v)
}

func asOffset(v interface{}) wal.Offset {
	if o, ok := v.(wal.Offset); ok {
		return o
	}
	return nil
}

func fid(p, id int) string { return fmt.Sprintf("%d.%d", p, id) }

// Several clusters run side by side (one per worker); node ids carry the worker's slot:
// leaders slot*100+1.., followers slot*100+10.., slot >= 1 (id 0 = standalone databases).
var (
	slotMu   sync.Mutex
	slotLogs = map[int]*evlog{}
	slotFree = []int{}
	slotNext = 1
	sinkOnce sync.Once
)

var scaleOnce sync.Once

// scaleTimers shortens (through the verifScale knob of the verif build) the follower start-up
// timers of followLeaders 30 s / 10 s / 5 s -> 2 s / 0.8 s / 0.4 s and the leader's idle poll
// in enqueuePartitionRequests 1 s -> 50 ms.
func scaleTimers() {
	scaleOnce.Do(func() {
		os.Setenv("ZVH_SCALE_FOLLOWINIT", "2000")
		os.Setenv("ZVH_SCALE_FOLLOWMORE", "800")
		os.Setenv("ZVH_SCALE_FOLLOWIDLE", "400")
		os.Setenv("ZVH_SCALE_LEADERPOLL", "50")
	})
}

func acquireSlot(lg *evlog) int {
	sinkOnce.Do(func() { zenodb.VerifSetSink(demuxSink) })
	slotMu.Lock()
	defer slotMu.Unlock()
	var slot int
	if n := len(slotFree); n > 0 {
		slot = slotFree[n-1]
		slotFree = slotFree[:n-1]
	} else {
		slot = slotNext
		slotNext++
	}
	slotLogs[slot] = lg
	return slot
}

func releaseSlot(slot int) {
	slotMu.Lock()
	delete(slotLogs, slot)
	slotFree = append(slotFree, slot)
	slotMu.Unlock()
}

// demuxSink hands an event to the cluster its node belongs to.
func demuxSink(name string, table string, args []interface{}) {
	id := -1
	switch name {
	case "leader.follower", "leader.spec", "leader.rewind", "leader.route":
		id, _ = args[0].(int)
	case "follower.msg", "follower.recv", "follower.msgdone", "repl.apply", "repl.persist":
		id, _ = args[1].(int)
	default:
		return
	}
	if id < 100 {
		return
	}
	slotMu.Lock()
	lg := slotLogs[id/100]
	slotMu.Unlock()
	if lg != nil {
		lg.sink(name, table, args)
	}
}

// sink records the events of the cluster's nodes.
func (lg *evlog) sink(name string, table string, args []interface{}) {
	var e Ev
	switch name {
	case "leader.follower": // stream, leader, fpart, fid, earliest
		e = Ev{Name: "join", L: args[0].(int), FP: args[1].(int), F: args[2].(int), Off: offStr(args[3])}
	case "leader.spec": // table, leader, fpart, fid, keys, tableOff, earliest, start
		e = Ev{Name: "spec", Table: table, L: args[0].(int), FP: args[1].(int), F: args[2].(int), Keys: args[3].(string),
			Off: offStr(args[4]), Off2: offStr(args[5]), Off3: offStr(args[6])}
	case "leader.rewind": // stream, leader, offset
		e = Ev{Name: "rewind", L: args[0].(int), Off: offStr(args[1])}
	case "leader.route": // stream, leader, offset, included, partitions
		e = Ev{Name: "route", L: args[0].(int), Off: offStr(args[1])}
		if ids, ok := args[2].([]common.FollowerID); ok {
			for _, id := range ids {
				e.Incl = append(e.Incl, fid(id.Partition, id.ID))
			}
		}
		sort.Strings(e.Incl)
		e.Pids, e.Where = decodePartitions(args[3])
	case "follower.msg": // stream, part, id, source, offset
		e = Ev{Name: "msg", FP: args[0].(int), F: args[1].(int), L: args[2].(int), Off: offStr(args[3])}
	case "follower.recv": // table, part, id, source, offset, forwarded
		e = Ev{Name: "recv", Table: table, FP: args[0].(int), F: args[1].(int), L: args[2].(int), Off: offStr(args[3]), Flag: args[4].(bool)}
	case "follower.msgdone":
		e = Ev{Name: "msgdone", FP: args[0].(int), F: args[1].(int), L: args[2].(int), Off: offStr(args[3])}
	case "repl.apply": // table, part, id, source, offset, hasKey
		e = Ev{Name: "apply", Table: table, FP: args[0].(int), F: args[1].(int), L: args[2].(int), Off: offStr(args[3]), Flag: args[4].(bool)}
	case "repl.persist": // table, part, id, withData
		e = Ev{Name: "persist", Table: table, FP: args[0].(int), F: args[1].(int), Flag: args[2].(bool)}
	default:
		return
	}
	lg.mu.Lock()
	lg.evs = append(lg.evs, e)
	switch e.Name {
	case "join":
		k := fmt.Sprintf("%d>%s", e.L, fid(e.FP, e.F))
		delete(lg.inclLast, k)
		delete(lg.doneLast, k)
		lg.joins[k]++
		if lg.reqs[k] > 0 {
			lg.reqs[k]--
		}
		lg.routeLast[e.L] = "joining"
	case "rewind":
		lg.rewinds[e.L]++
		lg.routeLast[e.L] = e.Off
	case "route":
		if lg.routeSeen[e.L] == nil {
			lg.routeSeen[e.L] = map[string]bool{}
		}
		lg.routeSeen[e.L][e.Off] = true
		lg.routeLast[e.L] = e.Off
		if o := asOffset(args[1]); o.After(lg.routeMax[e.L]) {
			lg.routeMax[e.L] = append(wal.Offset(nil), o...)
		}
		for _, f := range e.Incl {
			lg.inclLast[fmt.Sprintf("%d>%s", e.L, f)] = e.Off
		}
	case "msgdone":
		lg.doneLast[fmt.Sprintf("%d>%s", e.L, fid(e.FP, e.F))] = e.Off
	case "recv":
		if e.Flag {
			lg.fwdLast[fmt.Sprintf("%s/%s/%d", fid(e.FP, e.F), e.Table, e.L)] = e.Off
		}
	case "apply":
		lg.applyLast[fmt.Sprintf("%s/%s/%d", fid(e.FP, e.F), e.Table, e.L)] = e.Off
	}
	lg.mu.Unlock()
}

// add appends a harness-made event.
func (lg *evlog) add(e Ev) {
	lg.mu.Lock()
	lg.evs = append(lg.evs, e)
	if e.Name == "connect" {
		// quiescence needs the join that answers THIS connection (a stale request of an
		// earlier connection may still be handled by the leader)
		k := fmt.Sprintf("%d>%s", e.L, fid(e.FP, e.F))
		delete(lg.joins, k)
		delete(lg.inclLast, k)
		delete(lg.doneLast, k)
		lg.reqs[k]++
	}
	if e.Name == "stopLeader" {
		pre := fmt.Sprintf("%d>", e.L)
		for k := range lg.reqs {
			if strings.HasPrefix(k, pre) {
				delete(lg.reqs, k)
			}
		}
	}
	lg.mu.Unlock()
}

// awaitHandled waits until the leader has handled every earlier Follow request of the pair: two
// requests racing into the leader's followerJoined channel could be handled newest-first, and
// the stale one would then replace the live connection (over gRPC the same race exists between
// two streams; it is outside the model, the harness keeps requests in order).
func (lg *evlog) awaitHandled(l, p, id int, d time.Duration) {
	k := fmt.Sprintf("%d>%s", l, fid(p, id))
	deadline := time.Now().Add(d)
	for time.Now().Before(deadline) {
		lg.mu.Lock()
		n := lg.reqs[k]
		lg.mu.Unlock()
		if n <= 0 {
			return
		}
		time.Sleep(time.Millisecond)
	}
}

// forget drops the in-memory trackers of a follower (it stopped).
func (lg *evlog) forgetFollower(p, id int) {
	lg.mu.Lock()
	pre := fid(p, id) + "/"
	for k := range lg.fwdLast {
		if strings.HasPrefix(k, pre) {
			delete(lg.fwdLast, k)
		}
	}
	for k := range lg.applyLast {
		if strings.HasPrefix(k, pre) {
			delete(lg.applyLast, k)
		}
	}
	suf := ">" + fid(p, id)
	for k := range lg.inclLast {
		if strings.HasSuffix(k, suf) {
			delete(lg.inclLast, k)
		}
	}
	for k := range lg.doneLast {
		if strings.HasSuffix(k, suf) {
			delete(lg.doneLast, k)
		}
	}
	lg.mu.Unlock()
}

func (lg *evlog) forgetLink(l, p, id int) {
	lg.mu.Lock()
	k := fmt.Sprintf("%d>%s", l, fid(p, id))
	delete(lg.inclLast, k)
	delete(lg.doneLast, k)
	delete(lg.joins, k)
	lg.mu.Unlock()
}

func (lg *evlog) snapshot() []Ev {
	lg.mu.Lock()
	defer lg.mu.Unlock()
	return append([]Ev(nil), lg.evs...)
}

// decodePartitions reads map[string]*partitionResult (unexported fields pid, wherePassed)
// through reflection (read-only).
func decodePartitions(v interface{}) (pids []string, where []string) {
	rv := reflect.ValueOf(v)
	if rv.Kind() != reflect.Map {
		return
	}
	seen := map[string]bool{}
	it := rv.MapRange()
	for it.Next() {
		keys := it.Key().String()
		pr := it.Value()
		if pr.Kind() == reflect.Ptr {
			if pr.IsNil() {
				continue
			}
			pr = pr.Elem()
		}
		pid := pr.FieldByName("pid").Int()
		pids = append(pids, fmt.Sprintf("%s=%d", keys, pid))
		wp := pr.FieldByName("wherePassed")
		wi := wp.MapRange()
		for wi.Next() {
			if wi.Value().Bool() && !seen[wi.Key().String()] {
				seen[wi.Key().String()] = true
				where = append(where, wi.Key().String())
			}
		}
	}
	sort.Strings(pids)
	sort.Strings(where)
	return
}

// ---------------------------------------------------------------- cluster

const (
	followerBase = 10
	stream       = "inbound"
)

// TableDef is one table of the cluster schema (the same on every node).
type TableDef struct {
	S           *dbk.Schema
	PartitionBy []string // nil or empty: all dims
	where       goexpr.Expr
	groupBy     []core.GroupBy
}

type leaderNode struct {
	c    *Cluster
	ID   int
	dir  string
	db   *zenodb.DB
	gen  int
	up   bool
	nIns int // points appended to this leader's WAL
	mu   sync.Mutex
}

type conn struct {
	mu     sync.Mutex
	cond   *sync.Cond
	cut    bool
	paused int32 // atomic: set in script order; the waiting delivery is woken asynchronously
}

type followerNode struct {
	c       *Cluster
	Part    int
	ID      int
	dir     string
	db      *zenodb.DB
	mu      sync.Mutex
	gen     int
	up      bool
	insert  func(data []byte, off wal.Offset, source int) error
	follows map[int]*common.Follow
	nFollow int // how often DBOpts.Follow was invoked in this incarnation
	ready   chan struct{}
	query   planner.QueryClusterFN
	qready  chan struct{}
	conns   map[int]*conn // by leader id
	snap    string        // directory snapshot, "" = none
}

type Cluster struct {
	P         int
	Tables    []*TableDef
	Leaders   []*leaderNode
	Followers []*followerNode
	root      string
	log       *evlog
	slot      int
	closeHung bool
	grpc      bool // nodes are server.Server instances: the connections are made by server.follow
}

var errCut = errors.New("link cut")

func (c *Cluster) leaderIDs() []int {
	ids := make([]int, len(c.Leaders))
	for i, l := range c.Leaders {
		ids[i] = l.ID
	}
	return ids
}

// NewCluster starts nLeaders passthrough leaders and perPart followers for each of P
// partitions, creates the tables everywhere and connects every follower to every leader.
func NewCluster(tables []*TableDef, P, nLeaders, perPart int) (*Cluster, error) {
	root, err := os.MkdirTemp("", "zvh-cluster-*")
	if err != nil {
		return nil, err
	}
	c := &Cluster{P: P, Tables: tables, root: root, log: newEvlog()}
	c.slot = acquireSlot(c.log)
	scaleTimers()
	for i := 0; i < nLeaders; i++ {
		l := &leaderNode{c: c, ID: c.slot*100 + i + 1, dir: filepath.Join(root, fmt.Sprintf("leader%d", i+1))}
		c.Leaders = append(c.Leaders, l)
		if err := l.open(); err != nil {
			return c, err
		}
	}
	id := c.slot*100 + followerBase
	for p := 0; p < P; p++ {
		for k := 0; k < perPart; k++ {
			f := &followerNode{c: c, Part: p, ID: id, dir: filepath.Join(root, fmt.Sprintf("follower%d_%d", p, id))}
			id++
			c.Followers = append(c.Followers, f)
		}
	}
	for _, f := range c.Followers {
		if err := f.open(); err != nil {
			return c, err
		}
	}
	for _, f := range c.Followers {
		if err := f.awaitFollow(30 * time.Second); err != nil {
			return c, err
		}
	}
	for _, f := range c.Followers {
		for _, l := range c.Leaders {
			c.connect(l, f)
			c.registerQueryHandlers(l, f)
		}
	}
	return c, nil
}

func (c *Cluster) tableOpts(t *TableDef) *zenodb.TableOpts {
	// flushes happen only where the script forces them (see dbk.CreateTable)
	return &zenodb.TableOpts{Name: t.S.Table, RetentionPeriod: t.S.Retention, SQL: t.S.SQL(),
		PartitionBy:     append([]string(nil), t.PartitionBy...),
		MinFlushLatency: 10000 * time.Hour, MaxFlushLatency: 20000 * time.Hour}
}

func (l *leaderNode) open() error {
	db, err := zenodb.NewDB(&zenodb.DBOpts{Dir: l.dir, VirtualTime: true, Passthrough: true, ID: l.ID,
		NumPartitions: l.c.P, ClusterQueryConcurrency: 4, ClusterQueryTimeout: 60 * time.Second,
		// every Follow call allocates a channel of this capacity and a connection that never
		// fails keeps it alive with its read goroutine; scripts stay far below it
		MaxFollowQueue:            2000,
		IterationCoalesceInterval: time.Millisecond})
	if err != nil {
		return err
	}
	for _, t := range l.c.Tables {
		if err := db.CreateTable(l.c.tableOpts(t)); err != nil {
			db.Close()
			return err
		}
	}
	l.mu.Lock()
	l.db, l.up = db, true
	l.gen++
	l.mu.Unlock()
	return nil
}

func (l *leaderNode) alive(gen int) bool {
	l.mu.Lock()
	defer l.mu.Unlock()
	return l.up && l.gen == gen
}

func (f *followerNode) alive(gen int) bool {
	f.mu.Lock()
	defer f.mu.Unlock()
	return f.up && f.gen == gen
}

// open starts the follower on its directory (fresh or existing).
func (f *followerNode) open() error {
	f.mu.Lock()
	f.gen++
	gen := f.gen
	f.ready = make(chan struct{})
	f.qready = make(chan struct{})
	f.follows, f.insert, f.query, f.nFollow = nil, nil, nil, 0
	f.conns = map[int]*conn{}
	ready, qready := f.ready, f.qready
	f.mu.Unlock()
	opts := &zenodb.DBOpts{Dir: f.dir, VirtualTime: true, ID: f.ID, Partition: f.Part, NumPartitions: f.c.P,
		IterationCoalesceInterval: time.Millisecond, ClusterQueryConcurrency: 4,
		Follow: func(ff func(sources []int) map[int]*common.Follow, insert func(data []byte, newOffset wal.Offset, source int) error) {
			follows := ff(f.c.leaderIDs())
			f.mu.Lock()
			defer f.mu.Unlock()
			if f.gen != gen {
				return
			}
			f.nFollow++
			if f.nFollow == 1 {
				f.follows, f.insert = follows, insert
				close(ready)
			}
		},
		RegisterRemoteQueryHandler: func(db *zenodb.DB, partition int, query planner.QueryClusterFN) {
			f.mu.Lock()
			defer f.mu.Unlock()
			if f.gen != gen {
				return
			}
			f.query = query
			close(qready)
		},
	}
	db, err := zenodb.NewDB(opts)
	if err != nil {
		return err
	}
	for _, t := range f.c.Tables {
		if err := db.CreateTable(f.c.tableOpts(t)); err != nil {
			db.Close()
			return err
		}
	}
	for _, t := range f.c.Tables {
		for i := 0; i < 50000 && !db.VerifReady(t.S.Table); i++ {
			time.Sleep(100 * time.Microsecond)
		}
	}
	f.mu.Lock()
	f.db, f.up = db, true
	f.mu.Unlock()
	f.c.log.add(Ev{Name: "startFollower", FP: f.Part, F: f.ID})
	return nil
}

var errInfra = errors.New("infrastructure")

// awaitFollow waits until followLeaders has announced its tables (DBOpts.Follow was invoked)
// and checks that ALL tables made it into the announcement (a table created after the scaled
// start-up timers expired would be announced through the cancel path, which is outside the
// checks: treated as infrastructure trouble).
func (f *followerNode) awaitFollow(timeout time.Duration) error {
	select {
	case <-f.ready:
	case <-time.After(timeout):
		return fmt.Errorf("%w: follower %s never called Follow", errInfra, fid(f.Part, f.ID))
	}
	select {
	case <-f.qready:
	case <-time.After(timeout):
		return fmt.Errorf("%w: follower %s never registered its query handler", errInfra, fid(f.Part, f.ID))
	}
	f.mu.Lock()
	defer f.mu.Unlock()
	for _, l := range f.c.Leaders {
		fo := f.follows[l.ID]
		if fo == nil {
			return fmt.Errorf("%w: no Follow for leader %d", errInfra, l.ID)
		}
		n := 0
		for _, p := range fo.Partitions {
			n += len(p.Tables)
		}
		if n != len(f.c.Tables) {
			return fmt.Errorf("%w: follower announced %d of %d tables (start-up timer expired early)", errInfra, n, len(f.c.Tables))
		}
	}
	return nil
}

// connect does what server.followSource does over gRPC: leader.Follow with the follower's
// Follow request (table offsets as announced at start-up, EarliestOffset as kept up to date
// after every delivered entry), entries handed to the follower's insert callback.
func (c *Cluster) connect(l *leaderNode, f *followerNode) {
	c.log.awaitHandled(l.ID, f.Part, f.ID, 10*time.Second)
	f.mu.Lock()
	fo := f.follows[l.ID]
	insert := f.insert
	if old := f.conns[l.ID]; old != nil {
		f.mu.Unlock()
		c.cut(l, f)
		f.mu.Lock()
	}
	cn := &conn{}
	cn.cond = sync.NewCond(&cn.mu)
	f.conns[l.ID] = cn
	req := *fo // shallow copy, EarliestOffset as of now
	f.mu.Unlock()
	l.mu.Lock()
	db := l.db
	l.mu.Unlock()
	c.log.add(Ev{Name: "connect", L: l.ID, FP: f.Part, F: f.ID, Off: offStr(req.EarliestOffset)})
	go db.Follow(&req, func(data []byte, off wal.Offset) error {
		cn.mu.Lock()
		defer cn.mu.Unlock()
		for atomic.LoadInt32(&cn.paused) == 1 && !cn.cut {
			cn.cond.Wait()
		}
		if cn.cut {
			return errCut
		}
		d := append([]byte(nil), data...)
		o := append(wal.Offset(nil), off...)
		if err := insert(d, o, l.ID); err != nil {
			cn.cut = true
			c.log.forgetLink(l.ID, f.Part, f.ID)
			c.log.add(Ev{Name: "cutLink", L: l.ID, FP: f.Part, F: f.ID})
			return err
		}
		f.mu.Lock()
		fo.EarliestOffset = o // followSource: f.EarliestOffset = newOffset
		f.mu.Unlock()
		return nil
	})
}

// cut severs the link: entries in flight are lost, the leader learns about it when it next
// tries to deliver (cb error -> markFailed).
func (c *Cluster) cut(l *leaderNode, f *followerNode) {
	f.mu.Lock()
	cn := f.conns[l.ID]
	f.mu.Unlock()
	if cn == nil {
		return
	}
	cn.mu.Lock()
	if !cn.cut {
		cn.cut = true
		c.log.forgetLink(l.ID, f.Part, f.ID)
		c.log.add(Ev{Name: "cutLink", L: l.ID, FP: f.Part, F: f.ID})
	}
	cn.cond.Broadcast()
	cn.mu.Unlock()
}

func (c *Cluster) isCut(l *leaderNode, f *followerNode) bool {
	f.mu.Lock()
	cn := f.conns[l.ID]
	f.mu.Unlock()
	if cn == nil {
		return true
	}
	cn.mu.Lock()
	defer cn.mu.Unlock()
	return cn.cut
}

// pause holds deliveries on the link (a slow follower); resume releases them.
func (c *Cluster) pause(l *leaderNode, f *followerNode, on bool) {
	f.mu.Lock()
	cn := f.conns[l.ID]
	f.mu.Unlock()
	if cn == nil {
		return
	}
	// the flag changes at once (hold / release keep their script order); a delivery that is
	// waiting on it is woken as soon as the lock is free (a delivery in progress holds it)
	v := int32(0)
	if on {
		v = 1
	}
	atomic.StoreInt32(&cn.paused, v)
	go func() {
		cn.mu.Lock()
		cn.cond.Broadcast()
		cn.mu.Unlock()
	}()
}

// registerQueryHandlers keeps the leader's handler channel for the follower's partition
// filled, the way client.ProcessRemoteQuery / HandleRemoteQueries do over gRPC (one handler
// per query, re-registered afterwards).  A handler of a stopped follower answers with a
// retriable error, as a broken stream does.
func (c *Cluster) registerQueryHandlers(l *leaderNode, f *followerNode) {
	l.mu.Lock()
	lgen, ldb := l.gen, l.db
	l.mu.Unlock()
	f.mu.Lock()
	fgen, query := f.gen, f.query
	f.mu.Unlock()
	h := func(ctx context.Context, sqlString string, isSubQuery bool, subQueryResults [][]interface{}, unflat bool, onFields core.OnFields, onRow core.OnRow, onFlatRow core.OnFlatRow) (interface{}, error) {
		if !f.alive(fgen) {
			return nil, common.MarkRetriable(errors.New("follower gone"))
		}
		return query(ctx, sqlString, isSubQuery, subQueryResults, unflat, onFields, onRow, onFlatRow)
	}
	go func() {
		for l.alive(lgen) && f.alive(fgen) {
			ldb.RegisterQueryHandler(f.Part, h)
		}
	}()
}

func closeWithTimeout(db *zenodb.DB, d time.Duration) bool {
	done := make(chan struct{})
	go func() {
		db.Close()
		close(done)
	}()
	select {
	case <-done:
		db.VerifForget()
		return true
	case <-time.After(d):
		if p := os.Getenv("ZVH_STACKS"); p != "" {
			if f, err := os.Create(p); err == nil {
				pprof.Lookup("goroutine").WriteTo(f, 1)
				f.Close()
			}
		}
		return false
	}
}

// stopFollower closes the follower (clean stop: Close flushes every table).
func (c *Cluster) stopFollower(f *followerNode) bool {
	f.mu.Lock()
	if !f.up {
		f.mu.Unlock()
		return true
	}
	f.up = false
	db := f.db
	f.mu.Unlock()
	for _, l := range c.Leaders {
		c.cut(l, f)
	}
	ok := closeWithTimeout(db, 10*time.Second)
	if !ok {
		c.closeHung = true
	}
	c.log.forgetFollower(f.Part, f.ID)
	c.log.add(Ev{Name: "stopFollower", FP: f.Part, F: f.ID})
	return ok
}

// startFollower reopens the follower on its directory and reconnects it.
func (c *Cluster) startFollower(f *followerNode) error {
	if err := f.open(); err != nil {
		return err
	}
	if err := f.awaitFollow(30 * time.Second); err != nil {
		return err
	}
	for _, l := range c.Leaders {
		if l.up {
			c.connect(l, f)
			c.registerQueryHandlers(l, f)
		}
	}
	return nil
}

func copyDir(src, dst string) error {
	return filepath.Walk(src, func(path string, info os.FileInfo, err error) error {
		if err != nil {
			if os.IsNotExist(err) {
				return nil
			}
			return err
		}
		rel, _ := filepath.Rel(src, path)
		target := filepath.Join(dst, rel)
		if info.IsDir() {
			return os.MkdirAll(target, 0o755)
		}
		in, err := os.Open(path)
		if err != nil {
			if os.IsNotExist(err) {
				return nil
			}
			return err
		}
		defer in.Close()
		out, err := os.Create(target)
		if err != nil {
			return err
		}
		defer out.Close()
		_, err = io.Copy(out, in)
		return err
	})
}

// snapshot copies the follower's directory (no flush is in progress: flushes only happen
// where this harness forces them, synchronously).
func (c *Cluster) snapshot(f *followerNode) error {
	dst := filepath.Join(c.root, fmt.Sprintf("snap_%d_%d", f.Part, f.ID))
	os.RemoveAll(dst)
	if err := copyDir(f.dir, dst); err != nil {
		return err
	}
	f.snap = dst
	c.log.add(Ev{Name: "snapshot", FP: f.Part, F: f.ID})
	return nil
}

// restore replaces the (stopped) follower's directory by the snapshot: a crash image.
func (c *Cluster) restore(f *followerNode) error {
	if f.snap == "" {
		return nil
	}
	os.RemoveAll(f.dir)
	if err := copyDir(f.snap, f.dir); err != nil {
		return err
	}
	c.log.add(Ev{Name: "restoreSnapshot", FP: f.Part, F: f.ID})
	return nil
}

// restartLeader closes and reopens a leader: follow specs are lost, the WAL is kept.
func (c *Cluster) restartLeader(l *leaderNode) error {
	for _, f := range c.Followers {
		if f.up {
			c.cut(l, f)
		}
	}
	// every Follow request already made to this instance is handled before it closes: a request
	// that reached a closed DB object could still be processed by it (an artifact of calling
	// Follow in-process; over gRPC the closed server would simply refuse the stream)
	for _, f := range c.Followers {
		c.log.awaitHandled(l.ID, f.Part, f.ID, 3*time.Second)
	}
	l.mu.Lock()
	l.up = false
	db := l.db
	l.mu.Unlock()
	if !closeWithTimeout(db, 30*time.Second) {
		c.closeHung = true
		return fmt.Errorf("%w: leader close hung", errInfra)
	}
	c.log.add(Ev{Name: "stopLeader", L: l.ID})
	if err := l.open(); err != nil {
		return err
	}
	c.log.add(Ev{Name: "startLeader", L: l.ID})
	for _, f := range c.Followers {
		if f.up {
			c.connect(l, f)
			c.registerQueryHandlers(l, f)
		}
	}
	return nil
}

// Insert appends a point to a leader's WAL.
func (c *Cluster) Insert(l *leaderNode, idx int, p dbk.Point) error {
	// logged first: the leader may route the entry before Insert returns
	c.log.add(Ev{Name: "insert", L: l.ID, Idx: idx})
	if err := l.db.Insert(stream, p.TS, p.Dims, p.Vals); err != nil {
		return err
	}
	l.nIns++
	return nil
}

// Quiesce waits until every leader has routed its whole WAL, every live link has delivered
// what was routed to it and every follower table has applied what was forwarded to it.
func (c *Cluster) Quiesce(timeout time.Duration) (bool, string) {
	deadline := time.Now().Add(timeout)
	why := ""
	stable := 0
	for {
		ok := true
		c.log.mu.Lock()
		lg := c.log
		for _, l := range c.Leaders {
			if !l.up {
				continue
			}
			if l.nIns > 0 && (len(lg.routeSeen[l.ID]) < l.nIns || lg.routeLast[l.ID] != offStr(lg.routeMax[l.ID])) {
				ok = false
				why = fmt.Sprintf("leader %d routed %d of %d entries (last %s, max %s)", l.ID, len(lg.routeSeen[l.ID]), l.nIns, lg.routeLast[l.ID], offStr(lg.routeMax[l.ID]))
			}
			for _, f := range c.Followers {
				if !f.up {
					continue
				}
				k := fmt.Sprintf("%d>%s", l.ID, fid(f.Part, f.ID))
				if lg.joins[k] == 0 {
					ok = false
					why = "follower " + k + " has not joined"
				}
				if in := lg.inclLast[k]; in != "" && lg.doneLast[k] != in {
					ok = false
					why = fmt.Sprintf("link %s: routed up to %s, delivered up to %s", k, in, lg.doneLast[k])
				}
			}
		}
		for k, fw := range lg.fwdLast {
			if lg.applyLast[k] != fw {
				ok = false
				why = fmt.Sprintf("table %s: forwarded up to %s, applied up to %s", k, fw, lg.applyLast[k])
			}
		}
		c.log.mu.Unlock()
		if ok {
			// the conditions must hold twice in a row (a re-join rewinds the leader)
			stable++
			if stable >= 2 {
				return true, ""
			}
		} else {
			stable = 0
		}
		if time.Now().After(deadline) {
			return false, why
		}
		time.Sleep(2 * time.Millisecond)
	}
}

// Close stops every node and removes the directories.
func (c *Cluster) Close() {
	for _, f := range c.Followers {
		f.mu.Lock()
		up, db := f.up, f.db
		f.up = false
		f.mu.Unlock()
		if up && db != nil {
			for _, l := range c.Leaders {
				c.cut(l, f)
			}
			closeWithTimeout(db, 20*time.Second)
		}
	}
	for _, l := range c.Leaders {
		l.mu.Lock()
		up, db := l.up, l.db
		l.up = false
		l.mu.Unlock()
		if up && db != nil {
			closeWithTimeout(db, 20*time.Second)
		}
	}
	releaseSlot(c.slot)
	os.RemoveAll(c.root)
}
