package cluster

import (
	"encoding/json"
	"errors"
	"fmt"
	"os"
	"strings"
	"time"

	"zvh/dbk"
	"zvh/gen"
	"zvh/hk"
)

// step of a fault script
type step struct {
	Op string `json:"op"` // ins, flush, flushAll, snap, stopF, startF, crashF, restartF, restartL, cut, restore, hold, release, settle, quiesce
	N  int    `json:"n,omitempty"`
	K  string `json:"k,omitempty"` // ins: "skip1" = points that table 1's WHERE rejects, "keep1" = points it accepts
	F  int    `json:"f,omitempty"` // follower index
	T  int    `json:"t,omitempty"` // table index
	L  int    `json:"l,omitempty"` // leader index
}

type fcase struct {
	cfg    *config
	Script []step
	Name   string
	Class  string
}

// genFaultCase generates a small cluster (1-2 leaders, 2-3 partitions, 1-2 followers each,
// 1-3 tables) and a script interleaving inserts, forced flushes, directory snapshots and at
// most maxFaults faults.
func genFaultCase(r *hk.Rng, maxFaults int) *fcase {
	cfg := &config{FlushAt: map[int][][2]int{}}
	cfg.P = hk.Pick(r, []int{2, 2, 3})
	cfg.NLeaders = hk.Pick(r, []int{1, 1, 2})
	cfg.PerPart = hk.Pick(r, []int{1, 2})
	// class "persisted-offset bookkeeping" (every second case): at least two tables on the
	// stream that skip different subsets of the entries a follower is sent (table 1 gets a WHERE
	// on a dim and partition keys different from table 0's), and a script built around episodes
	// of idle flushes (memstore empty, only the `offset` file is rewritten), data flushes and
	// restarts (clean, from a snapshot, after a down time) at each of these points
	bookkeeping := r.Chance(1, 2)
	for len(cfg.Tables) == 0 || (bookkeeping && len(cfg.Tables) < 2) {
		n := hk.Pick(r, []int{1, 2, 2, 3})
		if bookkeeping {
			n = hk.Pick(r, []int{2, 2, 3})
		}
		cfg.Tables = genTables(r, n)
	}
	if bookkeeping {
		makeSkipping(r, cfg.Tables)
	}
	fc := &fcase{cfg: cfg, Class: "random"}
	if bookkeeping {
		fc.Class = "bookkeeping"
	}
	nf := cfg.P * cfg.PerPart
	nFaults := r.Range(maxFaults/2+1, maxFaults)
	faults := 0
	downF := map[int]bool{}
	snapped := map[int]bool{}
	cutL := map[[2]int]bool{}
	held := map[[2]int]bool{}
	total := 0
	ins := func(n int) {
		fc.Script = append(fc.Script, step{Op: "ins", N: n})
		total += n
	}
	insK := func(n int, k string) {
		fc.Script = append(fc.Script, step{Op: "ins", N: n, K: k})
		total += n
	}
	add := func(st step) { fc.Script = append(fc.Script, st) }
	clean := func() bool { return len(downF) == 0 && len(cutL) == 0 && len(held) == 0 }
	// one episode on follower f: everything flushed; entries that table 1 skips arrive and an
	// idle flush persists the advanced offsets only; stored entries arrive and are flushed to a
	// filestore (all tables or some); the follower restarts one way or another, with a
	// snapshot taken at one of these points
	episode := func(f int) {
		snapAt := r.Intn(5)
		maybeSnap := func(k int) {
			if k == snapAt {
				add(step{Op: "snap", F: f})
				snapped[f] = true
			}
		}
		add(step{Op: "quiesce"})
		add(step{Op: "flushAll", F: f})
		maybeSnap(0)
		insK(r.Range(1, 4), "skip1")
		add(step{Op: "quiesce"})
		add(step{Op: "flushAll", F: f})
		maybeSnap(1)
		insK(r.Range(1, 4), "keep1")
		add(step{Op: "quiesce"})
		switch r.Intn(3) {
		case 0:
			add(step{Op: "flushAll", F: f})
		case 1:
			add(step{Op: "flush", F: f, T: 1})
		default:
			add(step{Op: "flush", F: f, T: r.Intn(len(cfg.Tables))})
		}
		maybeSnap(2)
		if r.Chance(1, 2) {
			insK(r.Range(1, 3), hk.Pick(r, []string{"skip1", "keep1", ""}))
			add(step{Op: "quiesce"})
			if r.Chance(1, 2) {
				add(step{Op: "flushAll", F: f})
			}
			maybeSnap(3)
		}
		switch r.Intn(4) {
		case 0:
			add(step{Op: "restartF", F: f})
		case 1:
			if snapped[f] {
				add(step{Op: "crashF", F: f})
			} else {
				add(step{Op: "restartF", F: f})
			}
		case 2:
			add(step{Op: "stopF", F: f})
			ins(r.Range(1, 4))
			add(step{Op: "startF", F: f})
		default:
			add(step{Op: "snap", F: f})
			snapped[f] = true
			ins(r.Range(1, 3))
			add(step{Op: "settle", N: r.Range(1, 40)})
			add(step{Op: "crashF", F: f})
		}
		faults++
		ins(r.Range(1, 4))
	}
	ins(r.Range(3, 12))
	if bookkeeping {
		episode(r.Intn(nf))
	}
	for faults < nFaults {
		if bookkeeping && clean() && r.Chance(1, 5) {
			episode(r.Intn(nf))
			continue
		}
		switch r.Intn(12) {
		case 0, 1:
			ins(r.Range(1, 10))
		case 2:
			fc.Script = append(fc.Script, step{Op: "flush", F: r.Intn(nf), T: r.Intn(len(cfg.Tables))})
		case 3:
			f := r.Intn(nf)
			fc.Script = append(fc.Script, step{Op: "snap", F: f})
			snapped[f] = true
		case 4:
			fc.Script = append(fc.Script, step{Op: "settle", N: r.Range(1, 40)})
		case 5: // restart follower (clean)
			f := r.Intn(nf)
			if downF[f] {
				fc.Script = append(fc.Script, step{Op: "startF", F: f})
				delete(downF, f)
			} else {
				fc.Script = append(fc.Script, step{Op: "restartF", F: f})
			}
			faults++
		case 6: // follower stays down for a while
			f := r.Intn(nf)
			if !downF[f] {
				fc.Script = append(fc.Script, step{Op: "stopF", F: f})
				downF[f] = true
				faults++
			}
		case 7: // restart from a crash image
			f := r.Intn(nf)
			if snapped[f] {
				fc.Script = append(fc.Script, step{Op: "crashF", F: f})
				delete(downF, f)
				faults++
			} else {
				fc.Script = append(fc.Script, step{Op: "snap", F: f})
				snapped[f] = true
			}
		case 8:
			fc.Script = append(fc.Script, step{Op: "restartL", L: r.Intn(cfg.NLeaders)})
			cutL = map[[2]int]bool{}
			held = map[[2]int]bool{}
			faults++
		case 9:
			k := [2]int{r.Intn(cfg.NLeaders), r.Intn(nf)}
			if cutL[k] {
				fc.Script = append(fc.Script, step{Op: "restore", L: k[0], F: k[1]})
				delete(cutL, k)
			} else {
				fc.Script = append(fc.Script, step{Op: "cut", L: k[0], F: k[1]})
				cutL[k] = true
				delete(held, k)
			}
			faults++
		case 10:
			k := [2]int{r.Intn(cfg.NLeaders), r.Intn(nf)}
			if held[k] {
				fc.Script = append(fc.Script, step{Op: "release", L: k[0], F: k[1]})
				delete(held, k)
			} else if !cutL[k] {
				fc.Script = append(fc.Script, step{Op: "hold", L: k[0], F: k[1]})
				held[k] = true
				faults++
			}
		default:
			ins(r.Range(1, 6))
		}
	}
	ins(r.Range(1, 8))
	cfg.Points = genPoints(r, cfg.Tables, total)
	for range cfg.Points {
		cfg.LeaderOf = append(cfg.LeaderOf, r.Intn(cfg.NLeaders))
	}
	// batches marked skip1 / keep1: make table 1's WHERE fail / pass on their points
	next := 0
	for _, st := range fc.Script {
		if st.Op != "ins" {
			continue
		}
		for k := 0; k < st.N && next < len(cfg.Points); k++ {
			if st.K != "" && len(cfg.Tables) > 1 {
				forceWhere(cfg.Tables[1], &cfg.Points[next], st.K == "keep1")
			}
			next++
		}
	}
	return fc
}

// makeSkipping gives table 1 a WHERE on a dim (if it has none) and partition keys different
// from table 0's, so that the tables of one follower skip different subsets of what it is sent.
func makeSkipping(r *hk.Rng, ts []*TableDef) {
	t1 := ts[1]
	if t1.S.WhereC < 0 {
		t1.S.WhereC = r.Intn(len(gen.Conds))
		if q, err := dbk.ParseTable(t1.S); err == nil {
			t1.where = q.Where
		}
	}
	if keySetID(t1.PartitionBy) == keySetID(ts[0].PartitionBy) && r.Chance(2, 3) {
		for tries := 0; tries < 8; tries++ {
			var ks []string
			src := t1.S.GroupBy
			if src == nil {
				src = pointDims
			}
			for _, d := range src {
				if r.Chance(1, 2) {
					ks = append(ks, d)
				}
			}
			if len(ks) > 0 && keySetID(ks) != keySetID(ts[0].PartitionBy) {
				t1.PartitionBy = ks
				break
			}
		}
	}
}

// forceWhere rewrites the point's dims so that the table's WHERE (one of gen.Conds: d = 'x',
// d <> 'x', g = '1') passes or fails.
func forceWhere(t *TableDef, p *dbk.Point, pass bool) {
	switch t.S.WhereC {
	case 0:
		if pass {
			p.Dims["d"] = "x"
		} else {
			p.Dims["d"] = "y"
		}
	case 1:
		if pass {
			p.Dims["d"] = "y"
		} else {
			p.Dims["d"] = "x"
		}
	case 2:
		if pass {
			p.Dims["g"] = "1"
		} else {
			p.Dims["g"] = "2"
		}
	}
}

// runFaults is one C12 case.
func runFaults(ctx *hk.RunCtx, r *hk.Rng, idx uint64, maxFaults int) (retry bool, err error) {
	fc, ok := scriptedCase(idx)
	if !ok {
		fc = genFaultCase(r, maxFaults)
	} else {
		ctx.Res.Hit("scripted-scenario")
	}
	return runFaultCase(ctx, fc, idx, hk.Derive(ctx.Seed^0x5a5a, idx))
}

// scripted is a hand-written scenario: a fixed configuration and script.  The scenarios are
// built in (builtinScripts) and addressed by the case indices scriptedFrom, scriptedFrom+1, …
// so that corpus entries and replays are plain (engine, mode, seed, index) references.
type scripted struct {
	Name    string `json:"name"`
	P       int    `json:"P"`
	Leaders int    `json:"leaders"`
	PerPart int    `json:"perPartition"`
	Tables  []struct {
		Def         string   `json:"def"` // "<value fields: a,b> <group-by dims: d,g | *>"
		PartitionBy []string `json:"partitionBy"`
	} `json:"tables"`
	Points []struct {
		Dims   map[string]interface{} `json:"dims"`
		Vals   map[string]float64     `json:"vals"`
		Sec    int                    `json:"sec"`
		Leader int                    `json:"leader"`
	} `json:"points"`
	Script []step `json:"script"`
}

const scriptedFrom = 900000

func scriptedCase(idx uint64) (*fcase, bool) {
	k := int(idx) - scriptedFrom
	if k < 0 || k >= len(builtinScripts) {
		return nil, false
	}
	var sc scripted
	if err := json.Unmarshal([]byte(builtinScripts[k]), &sc); err != nil {
		panic("cluster: built-in scenario does not parse: " + err.Error())
	}
	fc, err := sc.build()
	if err != nil {
		panic("cluster: built-in scenario: " + err.Error())
	}
	fc.Name = sc.Name
	return fc, true
}

func (sc *scripted) build() (*fcase, error) {
	cfg := &config{P: sc.P, NLeaders: sc.Leaders, PerPart: sc.PerPart, FlushAt: map[int][][2]int{}}
	for i, t := range sc.Tables {
		s, err := schemaFromDef(fmt.Sprintf("t%d", i), t.Def)
		if err != nil {
			return nil, err
		}
		td := &TableDef{S: s, PartitionBy: t.PartitionBy}
		q, err := dbk.ParseTable(s)
		if err != nil {
			return nil, err
		}
		td.where, td.groupBy = q.Where, q.GroupBy
		cfg.Tables = append(cfg.Tables, td)
	}
	for _, p := range sc.Points {
		vals := map[string]interface{}{}
		for k, v := range p.Vals {
			vals[k] = v
		}
		cfg.Points = append(cfg.Points, dbk.Point{TS: dbk.Base.Add(time.Duration(p.Sec) * time.Second), Dims: p.Dims, Vals: vals})
		cfg.LeaderOf = append(cfg.LeaderOf, p.Leader%sc.Leaders)
	}
	return &fcase{cfg: cfg, Script: sc.Script, Class: "scenario"}, nil
}

// schemaFromDef supports the hand-written corpus tables: `SUM(x) AS f0[, ...]` fields, optional
// GROUP BY dims, period(1s).
func schemaFromDef(name, text string) (*dbk.Schema, error) {
	s := &dbk.Schema{Table: name, Stream: stream, WhereC: -1, Res: time.Second, Retention: 4000 * time.Second}
	parts := strings.Fields(text)
	if len(parts) < 2 {
		return nil, fmt.Errorf("scenario table = \"<fields: a,b> <group by: d,g | *> [where=<index into gen.Conds>]\"")
	}
	fields, groupBy := parts[0], parts[1]
	if len(parts) > 2 {
		if _, err := fmt.Sscanf(parts[2], "where=%d", &s.WhereC); err != nil || s.WhereC >= len(gen.Conds) {
			return nil, fmt.Errorf("scenario table: bad %q", parts[2])
		}
	}
	for i, f := range strings.Split(fields, ",") {
		s.Fields = append(s.Fields, dbk.FieldDef{Name: fmt.Sprintf("f%d", i),
			Node: &gen.Node{Kind: "agg", Name: "SUM", Kids: []*gen.Node{{Kind: "field", Name: f}}}})
	}
	if groupBy != "*" {
		s.GroupBy = strings.Split(groupBy, ",")
	}
	return s, nil
}

func runFaultCase(ctx *hk.RunCtx, fc *fcase, idx uint64, r *hk.Rng) (retry bool, err error) {
	cfg := fc.cfg
	c, err := NewCluster(cfg.Tables, cfg.P, cfg.NLeaders, cfg.PerPart)
	if c != nil {
		defer c.Close()
	}
	if err != nil {
		if errors.Is(err, errInfra) {
			return true, nil
		}
		return false, err
	}
	alone, err := dbk.Open(dbk.Opts{})
	if err != nil {
		return false, err
	}
	defer alone.CloseAndRemove()
	for _, t := range cfg.Tables {
		if err := alone.CreateTable(t.S); err != nil {
			ctx.Res.Hit("create-table-error")
			return false, nil
		}
	}
	next := 0
	effective := 0
	infra := func(e error) (bool, error) {
		if e == nil {
			return false, nil
		}
		if errors.Is(e, errInfra) {
			ctx.Res.Note("case %d: %v", idx, e)
			return true, nil
		}
		return false, e
	}
	for _, st := range fc.Script {
		ctx.Res.Hit("step:" + st.Op)
		switch st.Op {
		case "ins":
			for k := 0; k < st.N && next < len(cfg.Points); k++ {
				p := cfg.Points[next]
				l := c.Leaders[cfg.LeaderOf[next]]
				if err := c.Insert(l, next, p); err != nil {
					return false, fmt.Errorf("leader insert: %v", err)
				}
				if err := alone.Insert(stream, p); err != nil {
					return false, fmt.Errorf("standalone insert: %v", err)
				}
				next++
			}
		case "flush":
			f := c.Followers[st.F]
			if f.up {
				f.db.VerifForceFlush(cfg.Tables[st.T].S.Table)
			}
		case "flushAll":
			f := c.Followers[st.F]
			if f.up {
				for _, t := range cfg.Tables {
					f.db.VerifForceFlush(t.S.Table)
				}
			}
		case "snap":
			if err := c.snapshot(c.Followers[st.F]); err != nil {
				return infra(fmt.Errorf("%w: snapshot: %v", errInfra, err))
			}
		case "settle":
			time.Sleep(time.Duration(st.N) * time.Millisecond)
		case "quiesce":
			if ok, why := c.Quiesce(30 * time.Second); !ok {
				return infra(fmt.Errorf("%w: no quiescence inside the script: %s", errInfra, why))
			}
		case "stopF":
			f := c.Followers[st.F]
			if f.up {
				if outstanding(c, f) {
					effective++
				}
				if !c.stopFollower(f) {
					return infra(fmt.Errorf("%w: follower close hung", errInfra))
				}
			}
		case "startF":
			f := c.Followers[st.F]
			if !f.up {
				if retry, err := infra(c.startFollower(f)); retry || err != nil {
					return retry, err
				}
			}
		case "restartF":
			f := c.Followers[st.F]
			if f.up {
				if outstanding(c, f) {
					effective++
				}
				if !c.stopFollower(f) {
					return infra(fmt.Errorf("%w: follower close hung", errInfra))
				}
			}
			if retry, err := infra(c.startFollower(f)); retry || err != nil {
				return retry, err
			}
		case "crashF":
			f := c.Followers[st.F]
			if f.snap == "" {
				break
			}
			if f.up {
				if !c.stopFollower(f) {
					return infra(fmt.Errorf("%w: follower close hung", errInfra))
				}
			}
			if err := c.restore(f); err != nil {
				return infra(fmt.Errorf("%w: restore: %v", errInfra, err))
			}
			effective++
			if retry, err := infra(c.startFollower(f)); retry || err != nil {
				return retry, err
			}
		case "restartL":
			effective++
			if retry, err := infra(c.restartLeader(c.Leaders[st.L])); retry || err != nil {
				return retry, err
			}
		case "cut":
			f := c.Followers[st.F]
			if f.up {
				if outstanding(c, f) {
					effective++
				}
				c.cut(c.Leaders[st.L], f)
			}
		case "restore":
			f := c.Followers[st.F]
			if f.up && c.isCut(c.Leaders[st.L], f) {
				c.connect(c.Leaders[st.L], f)
			}
		case "hold":
			if f := c.Followers[st.F]; f.up {
				c.pause(c.Leaders[st.L], f, true)
			}
		case "release":
			if f := c.Followers[st.F]; f.up {
				c.pause(c.Leaders[st.L], f, false)
			}
		}
	}
	// bring everything back: all followers up, all links restored and released
	for _, f := range c.Followers {
		if !f.up {
			if retry, err := infra(c.startFollower(f)); retry || err != nil {
				return retry, err
			}
		}
	}
	for _, f := range c.Followers {
		for _, l := range c.Leaders {
			if c.isCut(l, f) {
				c.connect(l, f)
			}
			c.pause(l, f, false)
		}
	}
	// the rest of the points (none unless the script was cut short)
	for ; next < len(cfg.Points); next++ {
		p := cfg.Points[next]
		if err := c.Insert(c.Leaders[cfg.LeaderOf[next]], next, p); err != nil {
			return false, err
		}
		if err := alone.Insert(stream, p); err != nil {
			return false, err
		}
	}
	if ok, why := c.Quiesce(60 * time.Second); !ok {
		ctx.Res.Note("case %d: cluster did not quiesce after the faults: %s", idx, why)
		return true, nil
	}
	if !alone.Quiesce(30 * time.Second) {
		return true, nil
	}
	now := dbk.Base
	for _, p := range cfg.Points {
		if p.TS.After(now) {
			now = p.TS
		}
	}
	for _, l := range c.Leaders {
		l.db.VerifAdvanceClock(now)
	}
	for _, f := range c.Followers {
		f.db.VerifAdvanceClock(now)
	}
	alone.DB.VerifAdvanceClock(now)

	w := newWorld(cfg, c)
	caseJSON := map[string]interface{}{"engine": "cluster", "mode": "faults", "seed": ctx.Seed, "index": idx, "config": cfg.summary(), "script": fc.Script, "scenario": fc.Name}
	ctx.Res.Count(caseJSON, effective > 0)
	ctx.Res.Hit(fmt.Sprintf("effective-faults:%d", min(effective, 6)))
	ctx.Res.Hit("class:" + fc.Class)
	for k, n := range w.bookkeeping() {
		if n > 0 {
			ctx.Res.Hit("restart:" + k)
		}
	}
	var fails []propFail
	var ties []string
	ties = append(ties, w.checkRouting(ctx)...)
	// the property oracle: every follower table holds exactly the routed subset, each point once
	df, err := w.checkFollowerData(ctx, "C12")
	if err != nil {
		return infra(err)
	}
	fails = append(fails, df...)
	fails = append(fails, w.checkRedundant(ctx, "C12")...)
	if md, merr := w.modelAccept(ctx); merr != nil {
		return false, merr
	} else {
		ties = append(ties, md...)
	}
	// ... so the cluster again answers like the standalone database
	for k := 0; k < 6; k++ {
		t := cfg.Tables[r.Intn(len(cfg.Tables))]
		q := genQuery(r, cfg.Tables, t, now)
		d, finding := compareQuery(ctx, c.Leaders[r.Intn(len(c.Leaders))].db, alone.DB, q)
		if d != "" {
			fails = append(fails, propFail{"C12", fmt.Sprintf("after the faults, query %q: %s", q.SQL, d), finding})
		}
	}
	if d := os.Getenv("ZVH_DUMP"); d != "" && len(fails)+len(ties) > 0 {
		dumpCase(d, idx, caseJSON, w)
	}
	for _, f := range fails {
		finding := f.finding
		if finding == "" {
			finding = w.matchReplFinding(f.msg)
		}
		ctx.Res.Disagree(hk.Disagreement{Kind: "property", Case: caseJSON, Detail: f.prop + ": " + f.msg, PropertyFails: true, Prop: f.prop, Index: idx, Finding: activeFinding(finding)})
	}
	for _, d := range ties {
		ctx.Res.Disagree(hk.Disagreement{Kind: "model-vs-impl", Case: caseJSON, Detail: d, Index: idx})
	}
	traceValidated(ctx)
	return false, nil
}

// outstanding: entries routed to the follower that it has not yet taken over (a fault now
// loses messages in flight).
func outstanding(c *Cluster, f *followerNode) bool {
	c.log.mu.Lock()
	defer c.log.mu.Unlock()
	for _, l := range c.Leaders {
		k := fmt.Sprintf("%d>%s", l.ID, fid(f.Part, f.ID))
		if in := c.log.inclLast[k]; in != "" && c.log.doneLast[k] != in {
			return true
		}
	}
	return false
}

func dumpCase(dir string, idx uint64, caseJSON interface{}, w *world) {
	os.MkdirAll(dir, 0o755)
	f, err := os.Create(fmt.Sprintf("%s/case-%d.txt", dir, idx))
	if err != nil {
		return
	}
	defer f.Close()
	b, _ := json.Marshal(caseJSON)
	fmt.Fprintf(f, "%s\n", b)
	for i, p := range w.cfg.Points {
		fmt.Fprintf(f, "point %d leader %d dims %v vals %v ts %v\n", i, w.cfg.LeaderOf[i]+1, p.Dims, p.Vals, p.TS.UnixNano())
	}
	for _, e := range w.evs {
		b, _ := json.Marshal(e)
		extra := ""
		if e.L != 0 && e.Off != "" {
			extra = fmt.Sprintf("  #rank %d", w.rankers[e.L].rank(e.Off))
			if e.Off2 != "" {
				extra += fmt.Sprintf(" %d %d", w.rankers[e.L].rank(e.Off2), w.rankers[e.L].rank(e.Off3))
			}
		}
		fmt.Fprintf(f, "%s%s\n", b, extra)
	}
}

// bookkeeping classifies, per follower table, the state of its two persisted offset records at
// each (re)start of the follower: which records exist and which one is ahead.  (Evidence that the
// runs really contain restarts over a stale offset file / a stale filestore header.)
func (w *world) bookkeeping() map[string]int {
	out := map[string]int{}
	type rec struct {
		off, file      int // sequence numbers of the last offset-only / data persist, 0 = never
		skipsSinceFile bool
	}
	cur := map[string]*rec{}  // live directory
	snap := map[string]*rec{} // snapshot
	seq := 0
	key := func(f int, t string) string { return fmt.Sprintf("%d/%s", f, t) }
	for _, e := range w.evs {
		seq++
		switch e.Name {
		case "persist":
			r := cur[key(e.F, e.Table)]
			if r == nil {
				r = &rec{}
				cur[key(e.F, e.Table)] = r
			}
			if e.Flag {
				r.file = seq
			} else {
				r.off = seq
			}
		case "snapshot":
			for k, r := range cur {
				if strings.HasPrefix(k, fmt.Sprintf("%d/", e.F)) {
					c := *r
					snap[k] = &c
				}
			}
		case "restoreSnapshot":
			for k := range cur {
				if strings.HasPrefix(k, fmt.Sprintf("%d/", e.F)) {
					delete(cur, k)
				}
			}
			for k, r := range snap {
				if strings.HasPrefix(k, fmt.Sprintf("%d/", e.F)) {
					c := *r
					cur[k] = &c
				}
			}
		case "startFollower":
			for k, r := range cur {
				if !strings.HasPrefix(k, fmt.Sprintf("%d/", e.F)) {
					continue
				}
				switch {
				case r.off > 0 && r.file > r.off:
					out["offset-file-stale"]++
				case r.off > 0 && r.file > 0 && r.off > r.file:
					out["filestore-header-stale"]++
				case r.off > 0 && r.file == 0:
					out["offset-file-only"]++
				case r.file > 0:
					out["filestore-only"]++
				}
			}
		}
	}
	return out
}
