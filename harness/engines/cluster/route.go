package cluster

import (
	"sort"
	"strings"

	"github.com/getlantern/bytemap"
	"github.com/spaolacci/murmur3"
)

// Independent re-statement of db.partitionFor (cluster_follow.go): murmur3-32 of the value
// bytes of the partition keys that are present, in SORTED key order (both sides end up with
// sorted keys: sortedPartitionKeys sorts the table's own PartitionBy slice in place), or of
// the whole encoded dims when the table has no partition keys; then `int(sum32) % N`.
// The hash itself is the uninterpreted parameter of Model/Route.lean; the harness hands the
// 32-bit value to the model and cross-checks this function against the pids reported by the
// leader's `leader.route` events.

// keySetID is the leader's map key for a partition-key set ("" = all dims).
func keySetID(keys []string) string {
	if len(keys) == 0 {
		return ""
	}
	ks := append([]string(nil), keys...)
	sort.Strings(ks)
	return strings.Join(ks, "|")
}

func sortedKeys(keys []string) []string {
	ks := append([]string(nil), keys...)
	sort.Strings(ks)
	return ks
}

// hashInput returns the bytes fed to the hash and the list of (key, present) decisions.
func hashInput(dims bytemap.ByteMap, keys []string) (in []byte, present []string) {
	if len(keys) == 0 {
		return []byte(dims), nil
	}
	for _, k := range sortedKeys(keys) {
		b := dims.GetBytes(k)
		if len(b) > 0 {
			in = append(in, b...)
			present = append(present, k)
		}
	}
	return in, present
}

func hash32(dims bytemap.ByteMap, keys []string) uint32 {
	in, _ := hashInput(dims, keys)
	return murmur3.Sum32(in)
}

func partitionFor(dims bytemap.ByteMap, keys []string, n int) int {
	return int(hash32(dims, keys)) % n
}
