package cluster

import (
	"encoding/json"
	"os"
	"sync"
)

var (
	knownOnce sync.Once
	knownSet  map[string]bool
)

// activeFinding returns id if known_findings.json ($ZV_KNOWN) lists it under "known": only
// then does a matching failure count as a known finding; otherwise it stays a violation
// (in particular once a defect is fixed and its entry has moved to "fixed").
func activeFinding(id string) string {
	if id == "" {
		return ""
	}
	knownOnce.Do(func() {
		knownSet = map[string]bool{}
		b, err := os.ReadFile(os.Getenv("ZV_KNOWN"))
		if err != nil {
			return
		}
		var kf struct {
			Known []struct {
				ID string `json:"id"`
			} `json:"known"`
		}
		if json.Unmarshal(b, &kf) == nil {
			for _, k := range kf.Known {
				knownSet[k.ID] = true
			}
		}
	})
	if knownSet[id] {
		return id
	}
	return ""
}
