package cluster

// builtinScripts are the hand-written fault scenarios (case indices scriptedFrom + k).
var builtinScripts = []string{
	`{
 "name": "follower with two tables, one flushed, restarted from a crash image taken before the other table's first flush (witness of Zeno.C12.as_found_loses_entry; lost points before C12-fix-01)",
 "P": 2,
 "leaders": 1,
 "perPartition": 1,
 "tables": [
  {
   "def": "a *",
   "partitionBy": []
  },
  {
   "def": "b d",
   "partitionBy": [
    "d"
   ]
  }
 ],
 "points": [
  {
   "dims": {
    "d": "x",
    "g": "1"
   },
   "vals": {
    "a": 1,
    "b": 2
   },
   "sec": 0
  },
  {
   "dims": {
    "d": "y",
    "g": "1"
   },
   "vals": {
    "a": 2,
    "b": 1
   },
   "sec": 0
  },
  {
   "dims": {
    "d": "z",
    "g": "2"
   },
   "vals": {
    "a": 3,
    "b": 4
   },
   "sec": 1
  },
  {
   "dims": {
    "d": "w"
   },
   "vals": {
    "a": 1,
    "b": 1
   },
   "sec": 1
  },
  {
   "dims": {
    "d": "x",
    "g": "2"
   },
   "vals": {
    "a": 5,
    "b": 2
   },
   "sec": 2
  },
  {
   "dims": {
    "d": "v",
    "g": "3"
   },
   "vals": {
    "a": 2,
    "b": 2
   },
   "sec": 2
  },
  {
   "dims": {
    "d": "u"
   },
   "vals": {
    "a": 4,
    "b": 8
   },
   "sec": 3
  },
  {
   "dims": {
    "d": "y",
    "g": "4"
   },
   "vals": {
    "a": 1,
    "b": 1
   },
   "sec": 3
  },
  {
   "dims": {
    "d": "x",
    "g": "5"
   },
   "vals": {
    "a": 1,
    "b": 3
   },
   "sec": 4
  },
  {
   "dims": {
    "d": "t"
   },
   "vals": {
    "a": 2,
    "b": 5
   },
   "sec": 4
  }
 ],
 "script": [
  {
   "op": "ins",
   "n": 8
  },
  {
   "op": "quiesce"
  },
  {
   "op": "flush",
   "f": 0,
   "t": 0
  },
  {
   "op": "flush",
   "f": 1,
   "t": 0
  },
  {
   "op": "snap",
   "f": 0
  },
  {
   "op": "snap",
   "f": 1
  },
  {
   "op": "ins",
   "n": 2
  },
  {
   "op": "quiesce"
  },
  {
   "op": "crashF",
   "f": 0
  },
  {
   "op": "crashF",
   "f": 1
  }
 ]
}`,
	`{
 "name": "link cut while deliveries are held back, leader restarted, follower restarted cleanly, redundant follower down during inserts",
 "P": 2,
 "leaders": 1,
 "perPartition": 2,
 "tables": [
  {
   "def": "a d,g",
   "partitionBy": [
    "g",
    "d"
   ]
  },
  {
   "def": "a,b *",
   "partitionBy": [
    "d"
   ]
  }
 ],
 "points": [
  {
   "dims": {
    "d": "x",
    "g": "1"
   },
   "vals": {
    "a": 1,
    "b": 2
   },
   "sec": 0
  },
  {
   "dims": {
    "d": "y",
    "g": "1"
   },
   "vals": {
    "a": 2,
    "b": 1
   },
   "sec": 0
  },
  {
   "dims": {
    "d": "z",
    "g": "2"
   },
   "vals": {
    "a": 3,
    "b": 4
   },
   "sec": 1
  },
  {
   "dims": {
    "d": "w"
   },
   "vals": {
    "a": 1,
    "b": 1
   },
   "sec": 1
  },
  {
   "dims": {
    "d": "x",
    "g": "2"
   },
   "vals": {
    "a": 5,
    "b": 2
   },
   "sec": 2
  },
  {
   "dims": {
    "d": "v",
    "g": "3"
   },
   "vals": {
    "a": 2,
    "b": 2
   },
   "sec": 2
  },
  {
   "dims": {
    "d": "u"
   },
   "vals": {
    "a": 4,
    "b": 8
   },
   "sec": 3
  },
  {
   "dims": {
    "d": "y",
    "g": "4"
   },
   "vals": {
    "a": 1,
    "b": 1
   },
   "sec": 3
  },
  {
   "dims": {
    "d": "x",
    "g": "5"
   },
   "vals": {
    "a": 1,
    "b": 3
   },
   "sec": 4
  },
  {
   "dims": {
    "d": "t"
   },
   "vals": {
    "a": 2,
    "b": 5
   },
   "sec": 4
  },
  {
   "dims": {
    "d": "s",
    "g": "1"
   },
   "vals": {
    "a": 7,
    "b": 5
   },
   "sec": 5
  },
  {
   "dims": {
    "d": "r",
    "g": "2"
   },
   "vals": {
    "a": 2,
    "b": 6
   },
   "sec": 5
  }
 ],
 "script": [
  {
   "op": "ins",
   "n": 3
  },
  {
   "op": "hold",
   "l": 0,
   "f": 0
  },
  {
   "op": "ins",
   "n": 3
  },
  {
   "op": "settle",
   "n": 100
  },
  {
   "op": "cut",
   "l": 0,
   "f": 0
  },
  {
   "op": "stopF",
   "f": 1
  },
  {
   "op": "ins",
   "n": 2
  },
  {
   "op": "restore",
   "l": 0,
   "f": 0
  },
  {
   "op": "restartL",
   "l": 0
  },
  {
   "op": "ins",
   "n": 2
  },
  {
   "op": "restartF",
   "f": 2
  },
  {
   "op": "startF",
   "f": 1
  },
  {
   "op": "ins",
   "n": 2
  }
 ]
}`,
}
