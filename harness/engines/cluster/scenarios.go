package cluster

// builtinScripts are the hand-written fault scenarios (case indices scriptedFrom + k).
var builtinScripts = []string{
	`{
 "name": "follower with two tables, one flushed, restarted from a crash image taken before the other table's first flush (witness of Zeno.C12.as_found_loses_entry; lost points before C12-fix-01)",
 "P": 2,
 "leaders": 1,
 "perPartition": 1,
 "tables": [
  {
   "def": "a *",
   "partitionBy": []
  },
  {
   "def": "b d",
   "partitionBy": [
    "d"
   ]
  }
 ],
 "points": [
  {
   "dims": {
    "d": "x",
    "g": "1"
   },
   "vals": {
    "a": 1,
    "b": 2
   },
   "sec": 0
  },
  {
   "dims": {
    "d": "y",
    "g": "1"
   },
   "vals": {
    "a": 2,
    "b": 1
   },
   "sec": 0
  },
  {
   "dims": {
    "d": "z",
    "g": "2"
   },
   "vals": {
    "a": 3,
    "b": 4
   },
   "sec": 1
  },
  {
   "dims": {
    "d": "w"
   },
   "vals": {
    "a": 1,
    "b": 1
   },
   "sec": 1
  },
  {
   "dims": {
    "d": "x",
    "g": "2"
   },
   "vals": {
    "a": 5,
    "b": 2
   },
   "sec": 2
  },
  {
   "dims": {
    "d": "v",
    "g": "3"
   },
   "vals": {
    "a": 2,
    "b": 2
   },
   "sec": 2
  },
  {
   "dims": {
    "d": "u"
   },
   "vals": {
    "a": 4,
    "b": 8
   },
   "sec": 3
  },
  {
   "dims": {
    "d": "y",
    "g": "4"
   },
   "vals": {
    "a": 1,
    "b": 1
   },
   "sec": 3
  },
  {
   "dims": {
    "d": "x",
    "g": "5"
   },
   "vals": {
    "a": 1,
    "b": 3
   },
   "sec": 4
  },
  {
   "dims": {
    "d": "t"
   },
   "vals": {
    "a": 2,
    "b": 5
   },
   "sec": 4
  }
 ],
 "script": [
  {
   "op": "ins",
   "n": 8
  },
  {
   "op": "quiesce"
  },
  {
   "op": "flush",
   "f": 0,
   "t": 0
  },
  {
   "op": "flush",
   "f": 1,
   "t": 0
  },
  {
   "op": "snap",
   "f": 0
  },
  {
   "op": "snap",
   "f": 1
  },
  {
   "op": "ins",
   "n": 2
  },
  {
   "op": "quiesce"
  },
  {
   "op": "crashF",
   "f": 0
  },
  {
   "op": "crashF",
   "f": 1
  }
 ]
}`,
	`{
 "name": "link cut while deliveries are held back, leader restarted, follower restarted cleanly, redundant follower down during inserts",
 "P": 2,
 "leaders": 1,
 "perPartition": 2,
 "tables": [
  {
   "def": "a d,g",
   "partitionBy": [
    "g",
    "d"
   ]
  },
  {
   "def": "a,b *",
   "partitionBy": [
    "d"
   ]
  }
 ],
 "points": [
  {
   "dims": {
    "d": "x",
    "g": "1"
   },
   "vals": {
    "a": 1,
    "b": 2
   },
   "sec": 0
  },
  {
   "dims": {
    "d": "y",
    "g": "1"
   },
   "vals": {
    "a": 2,
    "b": 1
   },
   "sec": 0
  },
  {
   "dims": {
    "d": "z",
    "g": "2"
   },
   "vals": {
    "a": 3,
    "b": 4
   },
   "sec": 1
  },
  {
   "dims": {
    "d": "w"
   },
   "vals": {
    "a": 1,
    "b": 1
   },
   "sec": 1
  },
  {
   "dims": {
    "d": "x",
    "g": "2"
   },
   "vals": {
    "a": 5,
    "b": 2
   },
   "sec": 2
  },
  {
   "dims": {
    "d": "v",
    "g": "3"
   },
   "vals": {
    "a": 2,
    "b": 2
   },
   "sec": 2
  },
  {
   "dims": {
    "d": "u"
   },
   "vals": {
    "a": 4,
    "b": 8
   },
   "sec": 3
  },
  {
   "dims": {
    "d": "y",
    "g": "4"
   },
   "vals": {
    "a": 1,
    "b": 1
   },
   "sec": 3
  },
  {
   "dims": {
    "d": "x",
    "g": "5"
   },
   "vals": {
    "a": 1,
    "b": 3
   },
   "sec": 4
  },
  {
   "dims": {
    "d": "t"
   },
   "vals": {
    "a": 2,
    "b": 5
   },
   "sec": 4
  },
  {
   "dims": {
    "d": "s",
    "g": "1"
   },
   "vals": {
    "a": 7,
    "b": 5
   },
   "sec": 5
  },
  {
   "dims": {
    "d": "r",
    "g": "2"
   },
   "vals": {
    "a": 2,
    "b": 6
   },
   "sec": 5
  }
 ],
 "script": [
  {
   "op": "ins",
   "n": 3
  },
  {
   "op": "hold",
   "l": 0,
   "f": 0
  },
  {
   "op": "ins",
   "n": 3
  },
  {
   "op": "settle",
   "n": 100
  },
  {
   "op": "cut",
   "l": 0,
   "f": 0
  },
  {
   "op": "stopF",
   "f": 1
  },
  {
   "op": "ins",
   "n": 2
  },
  {
   "op": "restore",
   "l": 0,
   "f": 0
  },
  {
   "op": "restartL",
   "l": 0
  },
  {
   "op": "ins",
   "n": 2
  },
  {
   "op": "restartF",
   "f": 2
  },
  {
   "op": "startF",
   "f": 1
  },
  {
   "op": "ins",
   "n": 2
  }
 ]
}`,
	`{
 "name": "stale offset file: table 1 (WHERE d = 'x') skips the first entries while its memstore is empty and an idle flush rewrites only its 'offset' file; stored points follow and go to filestores; followers restart cleanly and from a crash image (witness of Zeno.C12.offset_file_wins_reapplies: recovery must take the per-source maximum of offset file and filestore header)",
 "P": 2,
 "leaders": 1,
 "perPartition": 2,
 "tables": [
  {
   "def": "a *",
   "partitionBy": []
  },
  {
   "def": "b * where=0",
   "partitionBy": []
  }
 ],
 "points": [
  {
   "dims": {
    "d": "y",
    "g": "1"
   },
   "vals": {
    "a": 1,
    "b": 2
   },
   "sec": 0,
   "leader": 0
  },
  {
   "dims": {
    "d": "z",
    "g": "1"
   },
   "vals": {
    "a": 2,
    "b": 1
   },
   "sec": 0,
   "leader": 0
  },
  {
   "dims": {
    "d": "w",
    "g": "2"
   },
   "vals": {
    "a": 3,
    "b": 4
   },
   "sec": 1,
   "leader": 0
  },
  {
   "dims": {
    "d": "y",
    "g": "3"
   },
   "vals": {
    "a": 1,
    "b": 1
   },
   "sec": 1,
   "leader": 0
  },
  {
   "dims": {
    "d": "v"
   },
   "vals": {
    "a": 5,
    "b": 2
   },
   "sec": 2,
   "leader": 0
  },
  {
   "dims": {
    "d": "z",
    "g": "4"
   },
   "vals": {
    "a": 2,
    "b": 2
   },
   "sec": 2,
   "leader": 0
  },
  {
   "dims": {
    "d": "x",
    "g": "1"
   },
   "vals": {
    "a": 4,
    "b": 8
   },
   "sec": 3,
   "leader": 0
  },
  {
   "dims": {
    "d": "x",
    "g": "2"
   },
   "vals": {
    "a": 1,
    "b": 1
   },
   "sec": 3,
   "leader": 0
  },
  {
   "dims": {
    "d": "x",
    "g": "3"
   },
   "vals": {
    "a": 1,
    "b": 3
   },
   "sec": 4,
   "leader": 0
  },
  {
   "dims": {
    "d": "x",
    "g": "4"
   },
   "vals": {
    "a": 2,
    "b": 5
   },
   "sec": 4,
   "leader": 0
  },
  {
   "dims": {
    "d": "x",
    "g": "5"
   },
   "vals": {
    "a": 7,
    "b": 5
   },
   "sec": 5,
   "leader": 0
  },
  {
   "dims": {
    "d": "x",
    "g": "6"
   },
   "vals": {
    "a": 2,
    "b": 6
   },
   "sec": 5,
   "leader": 0
  },
  {
   "dims": {
    "d": "x"
   },
   "vals": {
    "a": 3,
    "b": 3
   },
   "sec": 6,
   "leader": 0
  },
  {
   "dims": {
    "d": "x",
    "g": "7"
   },
   "vals": {
    "a": 1,
    "b": 9
   },
   "sec": 6,
   "leader": 0
  },
  {
   "dims": {
    "d": "x",
    "g": "8"
   },
   "vals": {
    "a": 2,
    "b": 2
   },
   "sec": 7,
   "leader": 0
  },
  {
   "dims": {
    "d": "y",
    "g": "8"
   },
   "vals": {
    "a": 1,
    "b": 1
   },
   "sec": 7,
   "leader": 0
  },
  {
   "dims": {
    "d": "x",
    "g": "9"
   },
   "vals": {
    "a": 5,
    "b": 4
   },
   "sec": 8,
   "leader": 0
  },
  {
   "dims": {
    "d": "u",
    "g": "9"
   },
   "vals": {
    "a": 1,
    "b": 6
   },
   "sec": 8,
   "leader": 0
  },
  {
   "dims": {
    "d": "x",
    "g": "10"
   },
   "vals": {
    "a": 3,
    "b": 1
   },
   "sec": 9,
   "leader": 0
  },
  {
   "dims": {
    "d": "t",
    "g": "10"
   },
   "vals": {
    "a": 2,
    "b": 2
   },
   "sec": 9,
   "leader": 0
  }
 ],
 "script": [
  {
   "op": "ins",
   "n": 6
  },
  {
   "op": "quiesce"
  },
  {
   "op": "flushAll",
   "f": 0
  },
  {
   "op": "flushAll",
   "f": 1
  },
  {
   "op": "flushAll",
   "f": 2
  },
  {
   "op": "flushAll",
   "f": 3
  },
  {
   "op": "ins",
   "n": 8
  },
  {
   "op": "quiesce"
  },
  {
   "op": "flushAll",
   "f": 0
  },
  {
   "op": "flushAll",
   "f": 1
  },
  {
   "op": "flushAll",
   "f": 2
  },
  {
   "op": "flushAll",
   "f": 3
  },
  {
   "op": "snap",
   "f": 1
  },
  {
   "op": "snap",
   "f": 3
  },
  {
   "op": "ins",
   "n": 4
  },
  {
   "op": "quiesce"
  },
  {
   "op": "restartF",
   "f": 0
  },
  {
   "op": "crashF",
   "f": 1
  },
  {
   "op": "restartF",
   "f": 2
  },
  {
   "op": "ins",
   "n": 2
  }
 ]
}`,
	`{
 "name": "two leaders, offsets per source: a flush after entries of leader 1 only, then one after entries of leader 2 only, idle flush in between on the table that skipped them, restarts cleanly and from a crash image (every record must carry the offsets of BOTH sources; the offset file may be newer than the filestore header)",
 "P": 2,
 "leaders": 2,
 "perPartition": 2,
 "tables": [
  {
   "def": "a d,g",
   "partitionBy": [
    "d"
   ]
  },
  {
   "def": "b * where=2",
   "partitionBy": []
  }
 ],
 "points": [
  {
   "dims": {
    "d": "x",
    "g": "1"
   },
   "vals": {
    "a": 1,
    "b": 2
   },
   "sec": 0,
   "leader": 0
  },
  {
   "dims": {
    "d": "y",
    "g": "1"
   },
   "vals": {
    "a": 2,
    "b": 1
   },
   "sec": 0,
   "leader": 0
  },
  {
   "dims": {
    "d": "z",
    "g": "1"
   },
   "vals": {
    "a": 3,
    "b": 4
   },
   "sec": 1,
   "leader": 0
  },
  {
   "dims": {
    "d": "w",
    "g": "1"
   },
   "vals": {
    "a": 1,
    "b": 1
   },
   "sec": 1,
   "leader": 0
  },
  {
   "dims": {
    "d": "x",
    "g": "2"
   },
   "vals": {
    "a": 5,
    "b": 2
   },
   "sec": 2,
   "leader": 1
  },
  {
   "dims": {
    "d": "y",
    "g": "2"
   },
   "vals": {
    "a": 2,
    "b": 2
   },
   "sec": 2,
   "leader": 1
  },
  {
   "dims": {
    "d": "z",
    "g": "3"
   },
   "vals": {
    "a": 4,
    "b": 8
   },
   "sec": 3,
   "leader": 1
  },
  {
   "dims": {
    "d": "w",
    "g": "2"
   },
   "vals": {
    "a": 1,
    "b": 1
   },
   "sec": 3,
   "leader": 1
  },
  {
   "dims": {
    "d": "x",
    "g": "1"
   },
   "vals": {
    "a": 1,
    "b": 3
   },
   "sec": 4,
   "leader": 1
  },
  {
   "dims": {
    "d": "v",
    "g": "1"
   },
   "vals": {
    "a": 2,
    "b": 5
   },
   "sec": 4,
   "leader": 1
  },
  {
   "dims": {
    "d": "u",
    "g": "1"
   },
   "vals": {
    "a": 7,
    "b": 5
   },
   "sec": 5,
   "leader": 0
  },
  {
   "dims": {
    "d": "y",
    "g": "1"
   },
   "vals": {
    "a": 2,
    "b": 6
   },
   "sec": 5,
   "leader": 0
  },
  {
   "dims": {
    "d": "x",
    "g": "2"
   },
   "vals": {
    "a": 3,
    "b": 3
   },
   "sec": 6,
   "leader": 0
  },
  {
   "dims": {
    "d": "x",
    "g": "1"
   },
   "vals": {
    "a": 1,
    "b": 9
   },
   "sec": 6,
   "leader": 1
  },
  {
   "dims": {
    "d": "s",
    "g": "1"
   },
   "vals": {
    "a": 2,
    "b": 2
   },
   "sec": 7,
   "leader": 0
  },
  {
   "dims": {
    "d": "r",
    "g": "2"
   },
   "vals": {
    "a": 1,
    "b": 1
   },
   "sec": 7,
   "leader": 1
  }
 ],
 "script": [
  {
   "op": "ins",
   "n": 4
  },
  {
   "op": "quiesce"
  },
  {
   "op": "flushAll",
   "f": 0
  },
  {
   "op": "flushAll",
   "f": 1
  },
  {
   "op": "flushAll",
   "f": 2
  },
  {
   "op": "flushAll",
   "f": 3
  },
  {
   "op": "ins",
   "n": 4
  },
  {
   "op": "quiesce"
  },
  {
   "op": "flushAll",
   "f": 0
  },
  {
   "op": "flushAll",
   "f": 1
  },
  {
   "op": "flushAll",
   "f": 2
  },
  {
   "op": "flushAll",
   "f": 3
  },
  {
   "op": "snap",
   "f": 0
  },
  {
   "op": "snap",
   "f": 2
  },
  {
   "op": "ins",
   "n": 4
  },
  {
   "op": "quiesce"
  },
  {
   "op": "flushAll",
   "f": 1
  },
  {
   "op": "flushAll",
   "f": 3
  },
  {
   "op": "crashF",
   "f": 0
  },
  {
   "op": "restartF",
   "f": 1
  },
  {
   "op": "crashF",
   "f": 2
  },
  {
   "op": "restartF",
   "f": 3
  },
  {
   "op": "ins",
   "n": 4
  }
 ]
}`,
}
