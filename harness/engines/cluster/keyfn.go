package cluster

import (
	"fmt"
	"os"
	"path/filepath"
	"regexp"
	"strings"
	"sync"
	"time"

	"zvh/hk"
)

// Queries of the class "GROUP BY expressions over partition keys".
//
// pushdownAllowed pushes a query down only if every partition key of the table is kept by the
// GROUP BY through a ONE-TO-ONE expression (goexpr's WalkOneToOneParams: a plain dimension,
// NOT, ARRAY, the geo/isp wrappers — and LEN, wrongly: known finding
// C11-len-declared-one-to-one).  A many-to-one function of a key (SUBSTR prefix, SPLIT part,
// REPLACEALL, CONCAT, ANY, DECODE, a comparison) merges distinct key values — which live on
// different partitions — into one group, so the leader has to re-group.  The generator applies
// every function of the dimension-expression grammar of sql/sql.go that works offline
// (unaryGoExpr LEN; ternaryGoExpr SUBSTR SPLIT REPLACEALL; varGoExpr CONCAT ANY DECODE ARRAY;
// comparisons = / IN / NOT) to partition keys and to other dims, with HAVING / ORDER BY / LIMIT on
// top and optionally as the innermost FROM-subquery; the data makes groups collide across
// partitions (enrichDims: many key values, few prefixes / lengths).  The cluster-vs-standalone
// row oracle decides.

// dimFnCovered are the dimension functions of sql/sql.go that genKeyFnQuery applies; dimFnExcluded
// those it leaves out, with the reason.  checkDimFns compares the two with the function tables
// regenerated from the source (Generated/Facts.lean `sqlFuncTables`): a function the SQL front end
// offers and this generator does not know is reported, so that the class stays complete.
var dimFnCovered = map[string]bool{"LEN": true, "SUBSTR": true, "SPLIT": true, "REPLACEALL": true, "CONCAT": true, "ANY": true, "DECODE": true}
var dimFnExcluded = map[string]string{
	"CITY": "needs the geo database", "REGION": "needs the geo database", "REGION_CITY": "needs the geo database",
	"COUNTRY_CODE": "needs the geo database", "ISP": "needs an ISP provider", "ORG": "needs an ISP provider",
	"ASN": "needs an ISP provider", "ASNAME": "needs an ISP provider",
	"HGET": "needs redis", "SISMEMBER": "needs redis", "LUA": "needs redis",
	"RAND": "not deterministic", "ARRAY": "only an argument list of LUA",
	"CROSSTAB": "not a dimension: covered by the general query generator", "CROSSTABT": "not a dimension: covered by the general query generator",
}

var dimFnOnce sync.Once

// checkDimFns reads the regenerated fact tables next to known_findings.json ($ZV_KNOWN).
func checkDimFns(ctx *hk.RunCtx) {
	dimFnOnce.Do(func() {
		kn := os.Getenv("ZV_KNOWN")
		if kn == "" {
			return
		}
		b, err := os.ReadFile(filepath.Join(filepath.Dir(kn), "lean", "ZenoModel", "Generated", "Facts.lean"))
		if err != nil {
			return
		}
		re := regexp.MustCompile(`\("(nullaryGoExpr|unaryGoExpr|binaryGoExpr|ternaryGoExpr|varGoExpr)", \[([^\]]*)\]\)`)
		for _, m := range re.FindAllStringSubmatch(string(b), -1) {
			for _, name := range strings.Split(m[2], ",") {
				name = strings.Trim(strings.TrimSpace(name), `"`)
				if name == "" {
					continue
				}
				switch {
				case dimFnCovered[name]:
					ctx.Res.Hit("dimfn-covered:" + name)
				case dimFnExcluded[name] != "":
					ctx.Res.Hit("dimfn-excluded:" + name)
				default:
					ctx.Res.Disagree(hk.Disagreement{Kind: "model-vs-impl", Case: map[string]interface{}{"engine": "cluster", "table": m[1], "function": name},
						Detail: fmt.Sprintf("sql/sql.go %s offers the dimension function %s, which the GROUP BY-over-partition-keys generator (keyfn.go) neither applies nor excludes", m[1], name)})
				}
			}
		}
	})
}

// enrichDims rewrites the string dims of the points so that functions of them collide: d and u
// get suffixes (x, xa, xb, x-1, x-2 …: equal first character / first '-' part / length for
// different values).  d = 'x' / d <> 'x' / g = '1' (table and query WHEREs) keep their meaning.
func enrichDims(r *hk.Rng, cfg *config) {
	suffixes := []string{"", "", "a", "b", "c", "-1", "-2", "a-1"}
	for i := range cfg.Points {
		for _, k := range []string{"d", "u"} {
			if v, ok := cfg.Points[i].Dims[k].(string); ok {
				cfg.Points[i].Dims[k] = v + hk.Pick(r, suffixes)
			}
		}
		if v, ok := cfg.Points[i].Dims["g"].(string); ok && r.Chance(1, 3) {
			cfg.Points[i].Dims["g"] = v + hk.Pick(r, []string{"0", "1", "-1"})
		}
	}
}

// tableDims are the dims a table stores.
func (t *TableDef) tableDims() []string {
	if t.S.GroupBy == nil {
		return pointDims
	}
	return t.S.GroupBy
}

func has(xs []string, x string) bool {
	for _, y := range xs {
		if y == x {
			return true
		}
	}
	return false
}

// ensureKeyedTable makes sure the configuration has a table with explicit partition keys that
// its own GROUP BY keeps (only then can a GROUP BY over functions of the keys be pushed down).
func ensureKeyedTable(r *hk.Rng, cfg *config) {
	for _, t := range cfg.Tables {
		if t.keyed() {
			return
		}
	}
	t := cfg.Tables[0]
	dims := t.tableDims()
	var ks []string
	for _, d := range dims {
		if d != "n" && r.Chance(1, 2) {
			ks = append(ks, d)
		}
	}
	if len(ks) == 0 {
		ks = []string{dims[0]}
	}
	t.PartitionBy = ks
}

// keyed: explicit partition keys, all of them dims the table stores.
func (t *TableDef) keyed() bool {
	if len(t.PartitionBy) == 0 {
		return false
	}
	for _, k := range t.PartitionBy {
		if !has(t.tableDims(), k) {
			return false
		}
	}
	return true
}

type gbItem struct {
	sql   string   // the GROUP BY item
	name  string   // the name of the output dim
	many  bool     // many-to-one in the dims it reads
	fn    string   // function used ("" = plain)
	reads []string // dims it reads
}

// dimExpr builds a GROUP BY item over dim x (y = another dim of the table or "").
func dimExpr(r *hk.Rng, x, y string, allowPlain bool) gbItem {
	name := "k" + x
	str := x != "n" // n holds ints: only the functions that stringify
	for {
		switch r.Intn(15) {
		case 0:
			if allowPlain {
				return gbItem{sql: x, name: x, reads: []string{x}}
			}
		case 1:
			if str {
				return gbItem{sql: fmt.Sprintf("SUBSTR(%s, 0, 1) AS %s", x, name), name: name, many: true, fn: "SUBSTR", reads: []string{x}}
			}
		case 2:
			if str {
				return gbItem{sql: fmt.Sprintf("SPLIT(%s, '-', 0) AS %s", x, name), name: name, many: true, fn: "SPLIT", reads: []string{x}}
			}
		case 3:
			if str {
				return gbItem{sql: fmt.Sprintf("REPLACEALL(%s, '[abc0-9-]', '') AS %s", x, name), name: name, many: true, fn: "REPLACEALL", reads: []string{x}}
			}
		case 4:
			return gbItem{sql: fmt.Sprintf("CONCAT('_', %s, 'c') AS %s", x, name), name: name, many: true, fn: "CONCAT", reads: []string{x}}
		case 5:
			if y != "" {
				return gbItem{sql: fmt.Sprintf("CONCAT('', %s, %s) AS %s", x, y, name+y), name: name + y, many: true, fn: "CONCAT2", reads: []string{x, y}}
			}
		case 6:
			if y != "" {
				return gbItem{sql: fmt.Sprintf("ANY(%s, %s) AS %s", x, y, name+y), name: name + y, many: true, fn: "ANY", reads: []string{x, y}}
			}
		case 7:
			if str {
				return gbItem{sql: fmt.Sprintf("DECODE(%s, 'x', 'X', 'y', 'Y', 'other') AS %s", x, name), name: name, many: true, fn: "DECODE", reads: []string{x}}
			}
		case 8:
			return gbItem{sql: fmt.Sprintf("LEN(%s) AS %s", x, name), name: name, many: true, fn: "LEN", reads: []string{x}}
		case 9:
			if str {
				return gbItem{sql: fmt.Sprintf("SUBSTR(%s, 1, 5) AS %s", x, name), name: name, many: true, fn: "SUBSTR", reads: []string{x}}
			}
		case 10:
			if str {
				return gbItem{sql: fmt.Sprintf("SPLIT(%s, '-', -1) AS %s", x, name), name: name, many: true, fn: "SPLIT", reads: []string{x}}
			}
		case 11:
			if str {
				return gbItem{sql: fmt.Sprintf("%s = 'x' AS %s", x, name), name: name, many: true, fn: "EQ", reads: []string{x}}
			}
		case 12:
			if str {
				return gbItem{sql: fmt.Sprintf("NOT (%s = 'xa') AS %s", x, name), name: name, many: true, fn: "NOT", reads: []string{x}}
			}
		case 13:
			if str {
				return gbItem{sql: fmt.Sprintf("%s IN ('x', 'xa', 'y-1', '1', 'a') AS %s", x, name), name: name, many: true, fn: "IN", reads: []string{x}}
			}
		default:
			if str {
				return gbItem{sql: fmt.Sprintf("REPLACEALL(%s, '^(.).*$', '$1') AS %s", x, name), name: name, many: true, fn: "REPLACEALL", reads: []string{x}}
			}
		}
	}
}

// genKeyFnQuery builds one query of the class over table t.
func genKeyFnQuery(r *hk.Rng, t *TableDef, now time.Time) *qspec {
	s := t.S
	q := &qspec{Table: t}
	dims := t.tableDims()
	keys := []string{}
	for _, k := range t.PartitionBy {
		if has(dims, k) {
			keys = append(keys, k)
		}
	}
	other := func(x string) string {
		var c []string
		for _, d := range dims {
			if d != x {
				c = append(c, d)
			}
		}
		if len(c) == 0 || r.Chance(1, 3) {
			return ""
		}
		return hk.Pick(r, c)
	}
	var items []gbItem
	covered := map[string]bool{}
	kinds := []string{"keyfn"}
	// every partition key is mentioned (plain or through a function); at least one function
	fnUsed := false
	for i, k := range keys {
		if covered[k] {
			continue
		}
		y := other(k)
		it := dimExpr(r, k, y, fnUsed || i < len(keys)-1 || r.Chance(1, 4))
		if it.fn != "" {
			fnUsed = true
		}
		for _, d := range it.reads {
			covered[d] = true
		}
		items = append(items, it)
	}
	// functions of non-key dims (or, for an unkeyed table, of any dims)
	for _, d := range dims {
		if covered[d] || !r.Chance(1, 3) {
			continue
		}
		it := dimExpr(r, d, "", true)
		covered[d] = true
		items = append(items, it)
	}
	if len(items) == 0 {
		it := dimExpr(r, dims[0], "", false)
		items = append(items, it)
	}
	var gb, names []string
	for _, it := range items {
		gb = append(gb, it.sql)
		names = append(names, it.name)
		if it.fn != "" {
			kinds = append(kinds, it.fn)
		}
		if it.fn == "LEN" {
			q.HasLen = true
		}
	}
	// select list: plain columns (binary expressions may not wrap BOUNDED columns; AVG-like
	// columns are compared with a tolerance)
	fields := s.AllFields()
	var sel []string
	for _, f := range fields {
		if r.Chance(2, 3) {
			sel = append(sel, f.Name)
		}
		if f.Node.HasOp("/") || f.Node.HasKind("avg") {
			q.Tol = 1e-9
		}
	}
	if len(sel) == 0 {
		sel = []string{"_points"}
	}
	period := ""
	if r.Chance(1, 3) {
		period = fmt.Sprintf(", period(%v)", time.Duration(hk.Pick(r, []int{1, 2, 5, 1000}))*s.Res)
		kinds = append(kinds, "period")
	}
	inner := fmt.Sprintf("SELECT %s FROM %s GROUP BY %s%s", strings.Join(sel, ", "), s.Table, strings.Join(gb, ", "), period)
	text := inner
	if r.Chance(1, 4) {
		// the class as the innermost FROM-subquery: the outer statement groups by (some of)
		// the inner statement's dims
		var ogb []string
		for _, n := range names {
			if r.Chance(2, 3) {
				ogb = append(ogb, n)
			}
		}
		if len(ogb) == 0 || r.Chance(1, 3) {
			ogb = []string{"*"}
			// names stay as they are
		} else {
			names = ogb
		}
		text = fmt.Sprintf("SELECT %s FROM (%s) GROUP BY %s", strings.Join(sel, ", "), inner, strings.Join(ogb, ", "))
		kinds = append(kinds, "fromsub")
	}
	if r.Chance(1, 3) {
		text += fmt.Sprintf(" HAVING _points %s %d", hk.Pick(r, []string{">", "<=", "="}), r.Range(1, 4))
		if !has(sel, "_points") {
			// HAVING may name a table field that is not selected
		}
		kinds = append(kinds, "having")
	}
	if r.Chance(1, 2) {
		var ob []string
		cands := append(append([]string{}, names...), sel...)
		used := map[string]bool{}
		for i := 0; i < r.Range(1, 3); i++ {
			c := hk.Pick(r, cands)
			if used[c] {
				continue
			}
			used[c] = true
			if r.Chance(1, 3) {
				ob = append(ob, c+" DESC")
				q.OrderBy = append(q.OrderBy, "-"+c)
			} else {
				ob = append(ob, c)
				q.OrderBy = append(q.OrderBy, c)
			}
		}
		text += " ORDER BY " + strings.Join(ob, ", ")
		kinds = append(kinds, "order")
	}
	q.NoLimit = text
	if r.Chance(1, 4) {
		q.Limit = r.Range(1, 4)
		text += fmt.Sprintf(" LIMIT %d", q.Limit)
		kinds = append(kinds, "limit")
	}
	q.SQL = text
	q.Kind = strings.Join(kinds, "+")
	return q
}
