// Package cluster is the correspondence engine for C10 and C12: an IN-PROCESS zenodb
// cluster — 1-2 passthrough leaders and P x (1-2) followers wired through DBOpts.Follow /
// DBOpts.RegisterRemoteQueryHandler exactly the way server.Server wires them over gRPC
// (leader.Follow with the follower's common.Follow request and a callback handing entries
// to the follower's insert function; leader.RegisterQueryHandler with a function calling the
// follower's queryForRemote) — next to a standalone database given the same points.
//
// mode "equiv" (C10): generated schemas (partitionBy none / dim subsets), points through the
//
//	leader(s), then (A) every leader.route event vs an independent murmur3 re-statement of
//	partitionFor, (B) per follower table the applied points (repl.apply events) vs the routed
//	subset, (C) the stored contents vs the Lean raw-point spec of the routed subset, (D)
//	generated queries on a leader vs the standalone database (the property oracle), (E) the
//	event trace through the Lean protocol model (trace acceptance, Model/Repl.lean).
//
// mode "faults" (C12): the same cluster under generated fault sequences (stop/start follower,
//
//	restart from a directory snapshot, restart leader, cut/restore link, hold deliveries)
//	interleaved with inserts and forced flushes.
//
// mode "grpc" (thorough tier): a subset of "equiv" with real server.Server nodes over
//
//	gRPC/TLS on 127.0.0.1.
package cluster

import (
	"fmt"
	"os"
	"sync"

	"zvh/hk"
)

type Engine struct{}

var resMu sync.Mutex // guards the plain counters of hk.Result (cases run on several workers)

func inconclusive(ctx *hk.RunCtx) {
	resMu.Lock()
	ctx.Res.Inconclusive++
	resMu.Unlock()
}

func traceValidated(ctx *hk.RunCtx) {
	resMu.Lock()
	ctx.Res.TracesValidated++
	resMu.Unlock()
}

// forEachCase runs the cases From..From+N-1 (plus off) on a few workers; a case that reports
// infrastructure trouble is retried once and then counted as inconclusive.
func forEachCase(ctx *hk.RunCtx, off int, workers int, one func(idx uint64) (retry bool, err error)) error {
	if workers < 1 {
		workers = 1
	}
	jobs := make(chan uint64)
	var wg sync.WaitGroup
	var firstErr error
	var errMu sync.Mutex
	for w := 0; w < workers; w++ {
		wg.Add(1)
		go func() {
			defer wg.Done()
			for idx := range jobs {
				for attempt := 0; ; attempt++ {
					retry, err := one(idx)
					if err != nil {
						errMu.Lock()
						if firstErr == nil {
							firstErr = err
						}
						errMu.Unlock()
						break
					}
					if !retry {
						break
					}
					if attempt >= 1 {
						inconclusive(ctx)
						break
					}
				}
			}
		}()
	}
	for i := 0; i < ctx.N; i++ {
		errMu.Lock()
		stop := firstErr != nil
		errMu.Unlock()
		if stop {
			break
		}
		jobs <- uint64(ctx.From + i + off)
	}
	close(jobs)
	wg.Wait()
	return firstErr
}

func (Engine) Run(ctx *hk.RunCtx) error {
	mode := ctx.Mode
	if mode == "" {
		mode = "equiv"
		if ctx.Prop == "C12" {
			mode = "faults"
		}
	}
	thorough := ctx.Tier == "thorough"
	// The size class of a case is a function of its INDEX, so that (engine, mode, seed, index)
	// replays the same case in either tier: indices below 1e6 are the quick class (20 queries /
	// at most 6 faults), indices from 1e6 on the thorough class (60 queries / at most 20
	// faults).  A thorough-tier run (N > 1) starts at 1e6; replays and corpus entries (N = 1)
	// carry their own index.
	const longFrom = 1000000
	off := 0
	if thorough && ctx.N > 1 && ctx.From < longFrom {
		off = longFrom
	}
	workers := 3
	if thorough {
		workers = 5
	}
	if w := os.Getenv("ZVH_WORKERS"); w != "" {
		fmt.Sscan(w, &workers)
	}
	switch mode {
	case "equiv":
		checkDimFns(ctx)
		ctx.Res.Rule = "generated (P, leaders, followers per partition, 1-3 table schemas with partitionBy, points, forced flushes) + generated SQL queries; distinct by (seed, index, configuration); non-trivial = at least 10 points over at least 2 partitions"
		return forEachCase(ctx, off, workers, func(idx uint64) (bool, error) {
			nq := 20
			if idx >= longFrom {
				nq = 60
			}
			return runEquiv(ctx, hk.Derive(ctx.Seed, idx), idx, nq, 0)
		})
	case "faults":
		ctx.Res.Rule = "generated cluster configuration + generated fault sequence interleaved with inserts and forced flushes; distinct by (seed, index, script); non-trivial = at least one fault took effect while entries were outstanding or persisted state differed between tables"
		return forEachCase(ctx, off, workers, func(idx uint64) (bool, error) {
			maxFaults := 6
			if idx >= longFrom {
				maxFaults = 20
			}
			return runFaults(ctx, hk.Derive(ctx.Seed, idx), idx, maxFaults)
		})
	case "grpc":
		return runGRPC(ctx)
	default:
		return fmt.Errorf("cluster: unknown mode %q", mode)
	}
}
