package cluster

import (
	"fmt"
	"net"
	"os"
	"path/filepath"
	"strings"
	"time"

	"github.com/getlantern/zenodb"
	"github.com/getlantern/zenodb/server"

	"zvh/hk"
)

// mode "grpc": the equiv checks with real server.Server nodes talking gRPC over TLS on
// 127.0.0.1 (as the repo's TestServers does), so that rpc (msgpack codec, snappy) and
// server.follow / followSource / the remote-query registration loop are the code under test
// instead of the harness's in-process wiring.  Tables are created through the DB handle that
// Server.Prepare returns, in schema order, before the (scaled) follower start-up timers expire.

func freePort() (int, error) {
	l, err := net.Listen("tcp", "127.0.0.1:0")
	if err != nil {
		return 0, err
	}
	defer l.Close()
	return l.Addr().(*net.TCPAddr).Port, nil
}

type grpcNodes struct {
	servers []*server.Server
}

// NewGRPCCluster builds a Cluster whose nodes are server.Server instances.
func NewGRPCCluster(tables []*TableDef, P, nLeaders, perPart int) (*Cluster, func(), error) {
	root, err := os.MkdirTemp("", "zvh-cluster-grpc-*")
	if err != nil {
		return nil, func() {}, err
	}
	c := &Cluster{P: P, Tables: tables, root: root, log: newEvlog(), grpc: true}
	scaleTimers()
	c.slot = acquireSlot(c.log)
	nodes := &grpcNodes{}
	closeAll := func() {
		for i := len(nodes.servers) - 1; i >= 0; i-- {
			s := nodes.servers[i]
			done := make(chan struct{})
			go func() { s.Close(); close(done) }()
			select {
			case <-done:
			case <-time.After(20 * time.Second):
			}
		}
		releaseSlot(c.slot)
		os.RemoveAll(root)
	}
	mk := func(name string) (*server.Server, error) {
		p1, err := freePort()
		if err != nil {
			return nil, err
		}
		p2, err := freePort()
		if err != nil {
			return nil, err
		}
		return &server.Server{
			DBDir: filepath.Join(root, name), Addr: fmt.Sprintf("127.0.0.1:%d", p1), HTTPSAddr: fmt.Sprintf("127.0.0.1:%d", p2),
			PKFile: filepath.Join(root, name+"-pk.pem"), CertFile: filepath.Join(root, name+"-cert.pem"),
			Insecure: true, Vtime: true, NumPartitions: P, ListenTimeout: 10 * time.Second,
			IterationCoalesceInterval: time.Millisecond, ClusterQueryTimeout: 60 * time.Second,
			MaxReconnectWaitTime: 250 * time.Millisecond,
			Panic:                func(err interface{}) {},
		}, nil
	}
	start := func(s *server.Server) (*zenodb.DB, error) {
		db, run, err := s.Prepare()
		if err != nil {
			return nil, fmt.Errorf("%w: prepare: %v", errInfra, err)
		}
		for _, t := range tables {
			if err := db.CreateTable(c.tableOpts(t)); err != nil {
				return nil, err
			}
		}
		nodes.servers = append(nodes.servers, s)
		go run()
		return db, nil
	}
	var addrs []string
	for i := 0; i < nLeaders; i++ {
		s, err := mk(fmt.Sprintf("leader%d", i+1))
		if err != nil {
			return c, closeAll, fmt.Errorf("%w: %v", errInfra, err)
		}
		s.ID, s.Passthrough = c.slot*100+i+1, true
		db, err := start(s)
		if err != nil {
			return c, closeAll, err
		}
		c.Leaders = append(c.Leaders, &leaderNode{c: c, ID: s.ID, db: db, up: true, gen: 1})
		addrs = append(addrs, fmt.Sprintf("%s|%d", s.Addr, s.ID))
	}
	// leaders must be listening before followers dial
	for _, a := range addrs {
		addr := strings.Split(a, "|")[0]
		ok := false
		for k := 0; k < 200; k++ {
			if cn, err := net.DialTimeout("tcp", addr, 100*time.Millisecond); err == nil {
				cn.Close()
				ok = true
				break
			}
			time.Sleep(50 * time.Millisecond)
		}
		if !ok {
			return c, closeAll, fmt.Errorf("%w: leader at %s is not listening", errInfra, addr)
		}
	}
	id := c.slot*100 + followerBase
	for p := 0; p < P; p++ {
		for k := 0; k < perPart; k++ {
			s, err := mk(fmt.Sprintf("follower%d_%d", p, id))
			if err != nil {
				return c, closeAll, fmt.Errorf("%w: %v", errInfra, err)
			}
			s.ID, s.Partition = id, p
			s.Capture, s.Feed = strings.Join(addrs, ","), strings.Join(addrs, ",")
			db, err := start(s)
			if err != nil {
				return c, closeAll, err
			}
			for _, t := range tables {
				for i := 0; i < 50000 && !db.VerifReady(t.S.Table); i++ {
					time.Sleep(100 * time.Microsecond)
				}
			}
			c.Followers = append(c.Followers, &followerNode{c: c, Part: p, ID: id, db: db, up: true, gen: 1})
			c.log.add(Ev{Name: "startFollower", FP: p, F: id})
			id++
		}
	}
	return c, closeAll, nil
}

func runGRPC(ctx *hk.RunCtx) error {
	ctx.Res.Rule = "as mode equiv, with server.Server nodes over gRPC/TLS on 127.0.0.1"
	for i := 0; i < ctx.N; i++ {
		idx := uint64(ctx.From + i)
		for attempt := 0; ; attempt++ {
			retry, err := runEquivOn(ctx, hk.Derive(ctx.Seed^0x9e37, idx), idx, 15, true)
			if err != nil {
				return err
			}
			if !retry {
				break
			}
			if attempt >= 1 {
				inconclusive(ctx)
				break
			}
		}
	}
	return nil
}
