package cluster

import (
	"fmt"
	"os"
	"strings"
	"time"

	"zvh/dbk"
	"zvh/gen"
	"zvh/hk"
)

// partition-key choices: none (= all dims) and subsets of the dims, some deliberately unsorted
// (both sides sort them) and one naming a dim that points never carry.
var partitionChoices = [][]string{
	nil, nil, {"d"}, {"g"}, {"n"}, {"u"}, {"d", "g"}, {"g", "d"}, {"u", "d"}, {"n", "g"}, {"d", "g", "n"}, {"n", "u", "d", "g"}, {"zz"}, {"d", "zz"},
}

var uValues = []interface{}{"a", "b", "c", "d", "e", "f", "g", "h", nil}

type config struct {
	P        int
	NLeaders int
	PerPart  int
	Tables   []*TableDef
	Points   []dbk.Point
	LeaderOf []int
	// FlushAt[i] lists (follower index, table index) flushes forced after point i
	FlushAt map[int][][2]int
}

func (c *config) summary() map[string]interface{} {
	var ts []interface{}
	for _, t := range c.Tables {
		ts = append(ts, map[string]interface{}{"sql": t.S.SQL(), "partitionBy": t.PartitionBy})
	}
	return map[string]interface{}{"P": c.P, "leaders": c.NLeaders, "perPartition": c.PerPart, "tables": ts, "points": len(c.Points)}
}

func genTables(r *hk.Rng, n int) []*TableDef {
	var out []*TableDef
	for i := 0; i < n; i++ {
		s := dbk.GenSchema(r, fmt.Sprintf("t%d", i))
		// retention far beyond the span of the data: no node ever drops a point as too old,
		// whatever its own (virtual) clock says at that moment
		s.Retention = 4000 * s.Res
		t := &TableDef{S: s, PartitionBy: hk.Pick(r, partitionChoices)}
		// most schemas keep every partition key among the table's own GROUP BY dims (otherwise
		// one stored key is spread over partitions: known finding C10-pushdown-groupbyall-coarse-table)
		if repick := r.Chance(3, 4); t.coarse() && repick && os.Getenv("ZVH_COARSE") == "" {
			var ks []string
			for _, d := range s.GroupBy {
				if r.Chance(1, 2) {
					ks = append(ks, d)
				}
			}
			if len(ks) == 0 {
				ks = []string{s.GroupBy[0]}
			}
			t.PartitionBy = ks
		}
		q, err := dbk.ParseTable(s)
		if err != nil {
			continue
		}
		t.where = q.Where
		t.groupBy = q.GroupBy
		out = append(out, t)
	}
	return out
}

func minRes(ts []*TableDef) time.Duration {
	m := ts[0].S.Res
	for _, t := range ts {
		if t.S.Res < m {
			m = t.S.Res
		}
	}
	return m
}

func genPoints(r *hk.Rng, ts []*TableDef, n int) []dbk.Point {
	res := minRes(ts)
	cur := dbk.Base
	var pts []dbk.Point
	for i := 0; i < n; i++ {
		var t time.Time
		switch r.Intn(8) {
		case 0:
			t = cur.Add(-time.Duration(r.Range(0, 6)) * res)
		case 1:
			t = cur.Truncate(res)
		case 2:
			t = cur.Add(time.Duration(r.Range(1, 5)) * res)
		default:
			t = cur.Add(time.Duration(r.Range(0, int(res/time.Millisecond))) * time.Millisecond)
		}
		if t.Before(dbk.Base.Add(-10 * res)) {
			t = dbk.Base
		}
		if t.After(cur) {
			cur = t
		}
		p := dbk.GenPointAt(r, t, false)
		if u := hk.Pick(r, uValues); u != nil {
			p.Dims["u"] = u
		}
		// a point without any numeric value is neither inserted nor skipped by a table
		// (doInsert returns true without touching the row store, so not even its offset is
		// recorded); the protocol model has no such step, generated points carry a value
		if len(p.Vals) == 0 {
			p.Vals["a"] = float64(r.Range(1, 5))
		}
		pts = append(pts, p)
	}
	return pts
}

func genConfig(r *hk.Rng, maxPoints int) *config {
	c := &config{FlushAt: map[int][][2]int{}}
	c.P = hk.Pick(r, []int{1, 2, 2, 3, 3, 4, 5})
	c.NLeaders = hk.Pick(r, []int{1, 1, 2})
	c.PerPart = hk.Pick(r, []int{1, 1, 2})
	if c.P*c.PerPart > 6 {
		c.PerPart = 1
	}
	for len(c.Tables) == 0 {
		c.Tables = genTables(r, r.Range(1, 3))
	}
	c.Points = genPoints(r, c.Tables, r.Range(maxPoints/3, maxPoints))
	nf := c.P * c.PerPart
	for i := range c.Points {
		c.LeaderOf = append(c.LeaderOf, r.Intn(c.NLeaders))
		if r.Chance(1, 12) {
			c.FlushAt[i] = append(c.FlushAt[i], [2]int{r.Intn(nf), r.Intn(len(c.Tables))})
		}
	}
	// class "GROUP BY functions of partition keys" (keyfn.go): a table with explicit partition
	// keys among its own dims, and dim values that collide under prefix / split / length
	// functions; drawn from a generator of their own so that the rest of the case is unchanged
	r2 := hk.NewRng(r.Next())
	ensureKeyedTable(r2, c)
	enrichDims(r2, c)
	return c
}

// ---------------------------------------------------------------- queries

type qspec struct {
	SQL     string
	OrderBy []string // output columns / dims the ORDER BY names ("-x" = DESC), nil = none
	Limit   int
	NoLimit string // the same query without LIMIT (to judge ties at the cut)
	Tol     float64
	Kind    string
	Table   *TableDef // the table the query reads
	SubSQL  string    // text of the IN-subquery, "" = none
	SubTbl  *TableDef
	Offset  bool // LIMIT offset, count
	HasLen  bool // some GROUP BY expression uses LEN( (known finding C11-len-declared-one-to-one)
}

func fmtTime(t time.Time) string { return t.UTC().Format(time.RFC3339Nano) }

// genQuery builds one SQL query over table t: plain columns and derived fields, ASOF/UNTIL,
// WHERE (dim condition or IN-subquery over another table), coarser GROUP BY dims / period,
// CROSSTAB, FROM-subquery, HAVING, ORDER BY, LIMIT.
func genQuery(r *hk.Rng, all []*TableDef, t *TableDef, now time.Time) *qspec {
	s := t.S
	q := &qspec{Table: t}
	fields := s.AllFields()
	// operands of derived fields: binary expressions may not wrap BOUNDED columns
	var plainFields []dbk.FieldDef
	for _, f := range fields {
		if !f.Node.HasKind("bounded") {
			plainFields = append(plainFields, f)
		}
	}
	tf := func() dbk.FieldDef { return plainFields[r.Intn(len(plainFields))] }
	var sel []string
	var outCols []string
	kinds := []string{}
	if r.Chance(1, 5) {
		sel = []string{"*"}
		for _, f := range fields {
			outCols = append(outCols, f.Name)
		}
		kinds = append(kinds, "star")
	} else {
		k := r.Range(1, 3)
		seen := map[string]bool{}
		exprSeen := map[string]bool{}
		// two select items with the same expression are doubled by the leader's re-grouping
		// (C11-duplicate-field-expression): keep expressions distinct
		add := func(e string, name string) {
			if exprSeen[e] {
				return
			}
			exprSeen[e] = true
			sel = append(sel, e+" AS "+name)
			outCols = append(outCols, name)
		}
		for i := 0; i < k; i++ {
			name := fmt.Sprintf("q%d", i)
			a := tf()
			if r.Chance(1, 3) {
				a = fields[r.Intn(len(fields))]
				if seen[a.Name] {
					continue
				}
				seen[a.Name] = true
				sel = append(sel, a.Name)
				outCols = append(outCols, a.Name)
				continue
			}
			switch r.Intn(8) {
			case 0, 1, 2:
				if seen[a.Name] {
					continue
				}
				seen[a.Name] = true
				sel = append(sel, a.Name)
				outCols = append(outCols, a.Name)
			case 3:
				b := tf()
				op := hk.Pick(r, []string{"+", "-", "*"})
				add(fmt.Sprintf("%s %s %s", a.Name, op, b.Name), name)
			case 4:
				b := tf()
				add(fmt.Sprintf("%s / %s", a.Name, b.Name), name)
				q.Tol = 1e-9
			case 5:
				c := r.Intn(len(gen.Conds))
				add(fmt.Sprintf("IF(%s, %s)", gen.CondText[c], a.Name), name)
			case 6:
				add(fmt.Sprintf("%s * 2", a.Name), name)
			default:
				b := tf()
				add(fmt.Sprintf("%s > %s", a.Name, b.Name), name)
			}
		}
		if len(sel) == 0 {
			sel = append(sel, fields[0].Name)
			outCols = append(outCols, fields[0].Name)
		}
	}
	for _, f := range s.Fields {
		if f.Node.HasOp("/") || f.Node.HasKind("avg") {
			q.Tol = 1e-9
		}
	}
	from := s.Table
	dims := s.GroupBy
	if dims == nil {
		dims = []string{"d", "g", "n", "u"}
	}
	// FROM-subquery: an inner query that keeps the table's grain (optionally coarser)
	if r.Chance(1, 8) {
		var names []string
		for _, f := range fields {
			names = append(names, f.Name)
		}
		inner := "SELECT " + strings.Join(names, ", ") + " FROM " + s.Table
		var igb []string
		var kept []string
		for _, d := range dims {
			if r.Chance(2, 3) {
				igb = append(igb, d)
				kept = append(kept, d)
			}
		}
		if r.Chance(1, 3) {
			igb = append(igb, fmt.Sprintf("period(%v)", time.Duration(hk.Pick(r, []int{1, 2, 3}))*s.Res))
		}
		if len(igb) > 0 {
			inner += " GROUP BY " + strings.Join(igb, ", ")
			dims = kept
		}
		from = "(" + inner + ")"
		kinds = append(kinds, "fromsub")
	}
	text := "SELECT " + strings.Join(sel, ", ") + " FROM " + from
	switch r.Intn(7) {
	case 0:
		text += fmt.Sprintf(" ASOF '-%v'", time.Duration(r.Range(1, 30))*s.Res)
		kinds = append(kinds, "range")
	case 1:
		a := time.Duration(r.Range(3, 40)) * s.Res
		u := time.Duration(r.Range(0, 2)) * s.Res
		text += fmt.Sprintf(" ASOF '-%v' UNTIL '-%v'", a, u+time.Duration(r.Range(0, 1))*s.Res/2)
		kinds = append(kinds, "range")
	case 2:
		a := now.Add(-time.Duration(r.Range(2, 40))*s.Res + time.Duration(r.Range(0, 1))*s.Res/3)
		u := now.Add(-time.Duration(r.Range(0, 3)) * s.Res)
		text += fmt.Sprintf(" ASOF '%s' UNTIL '%s'", fmtTime(a), fmtTime(u))
		kinds = append(kinds, "range")
	}
	switch r.Intn(8) {
	case 0, 1:
		text += " WHERE " + gen.CondText[r.Intn(len(gen.Conds))]
		kinds = append(kinds, "where")
	case 2:
		// IN-subquery over some table of the schema
		o := all[r.Intn(len(all))]
		d := hk.Pick(r, []string{"d", "g"})
		okDim := o.S.GroupBy == nil
		for _, x := range o.S.GroupBy {
			if x == d {
				okDim = true
			}
		}
		if okDim {
			sub := fmt.Sprintf("SELECT %s FROM %s", d, o.S.Table)
			if r.Chance(1, 2) {
				sub += " WHERE " + gen.CondText[r.Intn(len(gen.Conds))]
			}
			sub += " GROUP BY " + d
			if r.Chance(1, 3) {
				sub += fmt.Sprintf(" HAVING _points > %d", r.Range(0, 3))
			}
			text += fmt.Sprintf(" WHERE %s IN (%s)", d, sub)
			q.SubSQL, q.SubTbl = sub, o
			kinds = append(kinds, "insub")
		}
	}
	var gb []string
	var gbDims []string
	crosstab := false
	switch r.Intn(7) {
	case 0:
	case 1:
		gb = append(gb, "_")
	case 2:
		gb = append(gb, "*")
		gbDims = dims
	default:
		for _, d := range dims {
			if r.Chance(1, 2) {
				gb = append(gb, d)
				gbDims = append(gbDims, d)
			}
		}
	}
	if len(gb) == 0 || gb[0] == "_" && len(gb) == 1 {
		if len(gb) == 0 {
			gbDims = dims
		}
	}
	if r.Chance(1, 10) && len(sel) > 0 && sel[0] != "*" {
		cd := hk.Pick(r, []string{"d", "g"})
		ok := false
		for _, d := range dims {
			if d == cd {
				ok = true
			}
		}
		inGb := false
		for _, d := range gbDims {
			if d == cd {
				inGb = true
			}
		}
		if ok && !inGb && !(len(gb) == 1 && (gb[0] == "*" || gb[0] == "_")) {
			gb = append(gb, fmt.Sprintf("CROSSTAB(%s)", cd))
			crosstab = true
			kinds = append(kinds, "crosstab")
		}
	}
	if r.Chance(1, 2) {
		mul := hk.Pick(r, []int{1, 2, 3, 5, 7, 1000})
		gb = append(gb, fmt.Sprintf("period(%v)", time.Duration(mul)*s.Res))
		kinds = append(kinds, "period")
	}
	if len(gb) > 0 {
		text += " GROUP BY " + strings.Join(gb, ", ")
		kinds = append(kinds, "groupby")
	}
	if r.Chance(1, 5) {
		a := tf()
		text += fmt.Sprintf(" HAVING %s %s %v", a.Name, hk.Pick(r, []string{">", "<=", "="}), float64(r.Range(0, 4)))
		kinds = append(kinds, "having")
	}
	if r.Chance(1, 3) && !crosstab {
		var ob []string
		cands := append([]string{"_time"}, outCols...)
		if !(len(gb) == 1 && gb[0] == "_") {
			cands = append(cands, gbDims...)
		}
		n := r.Range(1, 3)
		used := map[string]bool{}
		for i := 0; i < n; i++ {
			c := hk.Pick(r, cands)
			if used[c] {
				continue
			}
			used[c] = true
			if r.Chance(1, 3) {
				ob = append(ob, c+" DESC")
				q.OrderBy = append(q.OrderBy, "-"+c)
			} else {
				ob = append(ob, c)
				q.OrderBy = append(q.OrderBy, c)
			}
		}
		text += " ORDER BY " + strings.Join(ob, ", ")
		kinds = append(kinds, "order")
	}
	q.NoLimit = text
	if r.Chance(1, 4) {
		q.Limit = r.Range(1, 6)
		if r.Chance(1, 3) {
			text += fmt.Sprintf(" LIMIT %d, %d", r.Range(0, 3), q.Limit)
			q.Offset = true
		} else {
			text += fmt.Sprintf(" LIMIT %d", q.Limit)
		}
		kinds = append(kinds, "limit")
	}
	q.SQL = text
	if len(kinds) == 0 {
		kinds = []string{"plain"}
	}
	q.Kind = strings.Join(kinds, "+")
	return q
}

var pointDims = []string{"d", "g", "n", "u"}

// coarse reports whether the table's stored key (its own GROUP BY dims) does not determine the
// partition of a point: some effective partition key is a dim the table does not keep.
func (t *TableDef) coarse() bool {
	if t.S.GroupBy == nil {
		return false
	}
	kept := map[string]bool{}
	for _, d := range t.S.GroupBy {
		kept[d] = true
	}
	eff := t.PartitionBy
	if len(eff) == 0 {
		eff = pointDims
	}
	for _, k := range eff {
		carried := false
		for _, d := range pointDims {
			if d == k {
				carried = true
			}
		}
		if carried && !kept[k] {
			return true
		}
	}
	return false
}
