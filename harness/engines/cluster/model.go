package cluster

import (
	"encoding/json"
	"fmt"
	"os"
	"sort"

	"zvh/dbk"
	"zvh/hk"
)

// trace converts the event log into the model's events: offsets become ranks in the leader's
// WAL, tables become indices, the leader.spec events of one join are attached to it as the
// observed start offsets, leader.rewind becomes a check of the model's cursor.
func (w *world) trace() []map[string]interface{} {
	tix := map[string]int{}
	for i, t := range w.cfg.Tables {
		tix[t.S.Table] = i
	}
	var out []map[string]interface{}
	nIns := map[int]int{}
	lastJoin := map[string]map[string]interface{}{}
	for _, e := range w.evs {
		rk := w.rankers[e.L]
		r := func(s string) int {
			if rk == nil {
				return 0
			}
			return rk.rank(s)
		}
		switch e.Name {
		case "insert":
			nIns[e.L]++
			out = append(out, map[string]interface{}{"ev": "insert", "l": e.L, "off": nIns[e.L], "pt": e.Idx})
		case "join":
			if w.c.grpc {
				// server.follow made the connection; every pair connects once in this mode
				out = append(out, map[string]interface{}{"ev": "connect", "l": e.L, "f": e.F})
			}
			m := map[string]interface{}{"ev": "join", "l": e.L, "f": e.F, "starts": [][]int{}, "claims": [][]int{}}
			lastJoin[fmt.Sprintf("%d>%d", e.L, e.F)] = m
			out = append(out, m)
		case "spec":
			if m := lastJoin[fmt.Sprintf("%d>%d", e.L, e.F)]; m != nil {
				m["starts"] = append(m["starts"].([][]int), []int{tix[e.Table], r(e.Off3)})
				m["claims"] = append(m["claims"].([][]int), []int{tix[e.Table], r(e.Off)})
			}
		case "connect":
			out = append(out, map[string]interface{}{"ev": "connect", "l": e.L, "f": e.F})
		case "rewind":
			out = append(out, map[string]interface{}{"ev": "cursor", "l": e.L, "off": r(e.Off)})
		case "route":
			incl := []int{}
			for _, s := range e.Incl {
				var p, id int
				fmt.Sscanf(s, "%d.%d", &p, &id)
				incl = append(incl, id)
			}
			sort.Ints(incl)
			out = append(out, map[string]interface{}{"ev": "route", "l": e.L, "off": r(e.Off), "incl": incl})
		case "msg", "msgdone":
			out = append(out, map[string]interface{}{"ev": e.Name, "f": e.F, "l": e.L, "off": r(e.Off)})
		case "recv", "apply":
			out = append(out, map[string]interface{}{"ev": e.Name, "f": e.F, "t": tix[e.Table], "l": e.L, "off": r(e.Off), "flag": e.Flag})
		case "persist":
			out = append(out, map[string]interface{}{"ev": "persist", "f": e.F, "t": tix[e.Table], "flag": e.Flag})
		case "snapshot", "stopFollower", "restoreSnapshot", "startFollower":
			out = append(out, map[string]interface{}{"ev": e.Name, "f": e.F})
		case "cutLink":
			out = append(out, map[string]interface{}{"ev": "cutLink", "l": e.L, "f": e.F})
		case "stopLeader", "startLeader":
			out = append(out, map[string]interface{}{"ev": e.Name, "l": e.L})
		}
	}
	return out
}

// fixedEarliest tells the model which makeFollows it is looking at; the harness finds out by
// asking the model to accept the trace under the fixed variant first.
func (w *world) modelRequest(fixed bool) map[string]interface{} {
	var tables []int
	for i := range w.cfg.Tables {
		tables = append(tables, i)
	}
	var fols []interface{}
	for _, f := range w.c.Followers {
		fols = append(fols, map[string]interface{}{"id": f.ID, "part": f.Part})
	}
	var pts []interface{}
	for i := range w.cfg.Points {
		pid := []int{}
		wh := []bool{}
		for _, t := range w.cfg.Tables {
			pid = append(pid, partitionFor(w.dims[i], t.PartitionBy, w.cfg.P))
			wh = append(wh, w.whereOk(t, i))
		}
		pts = append(pts, map[string]interface{}{"pid": pid, "where": wh})
	}
	return map[string]interface{}{"engine": "cluster", "op": "accept", "tables": tables, "fixed": fixed,
		"leaders": w.c.leaderIDs(), "followers": fols, "points": pts, "events": w.trace()}
}

type modelOut struct {
	Accepted   bool     `json:"accepted"`
	RejectedAt *int     `json:"rejectedAt"`
	Mismatches []string `json:"mismatches"`
	Quiescent  bool     `json:"quiescent"`
	Tables     []struct {
		F      int   `json:"f"`
		T      int   `json:"t"`
		L      int   `json:"l"`
		Apps   []int `json:"apps"`
		MemOff int   `json:"memOff"`
		Routed []int `json:"routed"`
		Up     bool  `json:"up"`
	} `json:"tables"`
}

// modelAccept is the trace-acceptance tie: the model must accept every observed event, agree
// with the observed join offsets / rewinds / included followers, be quiescent at the end, and
// its end state (applications reflected by every follower table) must be what the routed
// subset says — which checkFollowerData has compared with the real tables' contents.
func (w *world) modelAccept(ctx *hk.RunCtx) (ties []string, err error) {
	if ctx.Model == nil {
		return nil, nil
	}
	// the routing function itself, through the model's `route` op, for a sample of points
	for i := range w.cfg.Points {
		if i%7 != 0 {
			continue
		}
		for _, t := range w.cfg.Tables {
			dims := [][]string{}
			for _, k := range sortedKeys(keysOf(w.cfg.Points[i].Dims)) {
				dims = append(dims, []string{k, string(w.dims[i].GetBytes(k))})
			}
			out, err := ctx.Model.Call(map[string]interface{}{"engine": "cluster", "op": "route", "keys": append([]string{}, t.PartitionBy...),
				"dims": dims, "n": w.cfg.P, "hash": hash32(w.dims[i], t.PartitionBy)})
			if err != nil {
				return nil, err
			}
			var ro struct {
				Partition int        `json:"partition"`
				Input     [][]string `json:"input"`
			}
			if err := json.Unmarshal(out, &ro); err != nil {
				return nil, err
			}
			_, present := hashInput(w.dims[i], t.PartitionBy)
			if ro.Partition != partitionFor(w.dims[i], t.PartitionBy, w.cfg.P) {
				ties = append(ties, fmt.Sprintf("model routes point %d under %v to %d, harness re-statement to %d", i, t.PartitionBy, ro.Partition, partitionFor(w.dims[i], t.PartitionBy, w.cfg.P)))
			}
			if len(t.PartitionBy) > 0 && len(ro.Input) != len(present) {
				ties = append(ties, fmt.Sprintf("model hashes %v for point %d under %v, the code hashes the values of %v", ro.Input, i, t.PartitionBy, present))
			}
		}
	}
	mo, req, clean, err := w.tryModel(ctx, true)
	if err != nil {
		return nil, err
	}
	w.variant = "fixed"
	if !clean {
		// the code under test may be the tree before C12-fix-01: the as-found makeFollows
		mo2, req2, clean2, err := w.tryModel(ctx, false)
		if err != nil {
			return nil, err
		}
		if clean2 {
			mo, req, clean, w.variant = mo2, req2, true, "as-found"
		}
	}
	ctx.Res.Hit("model:" + w.variant)
	if p := os.Getenv("ZVH_TRACE"); p != "" {
		b, _ := json.Marshal(req)
		os.WriteFile(p, b, 0o644)
	}
	if !mo.Accepted {
		evs := req["events"].([]map[string]interface{})
		b, _ := json.Marshal(evs[*mo.RejectedAt])
		why := ""
		if n := len(mo.Mismatches); n > 0 {
			why = mo.Mismatches[n-1]
		}
		ties = append(ties, fmt.Sprintf("the protocol model rejects observed event %d: %s (%s)", *mo.RejectedAt, b, why))
		return ties, nil
	}
	for _, m := range mo.Mismatches {
		ties = append(ties, "model vs observed: "+m)
	}
	if !mo.Quiescent {
		ties = append(ties, "the harness saw the cluster quiescent, the model's end state is not")
	}
	// the model's end state = what the real tables hold: the Lean raw-point spec of exactly the
	// applications the model says each table reflects vs the table's stored content
	w.modelMatchesData = true
	byTable := map[string][]int{}
	for _, tb := range mo.Tables {
		if !tb.Up {
			continue
		}
		k := fmt.Sprintf("%d/%d", tb.F, tb.T)
		for _, rk := range tb.Apps {
			pts := w.pointsOf[tb.L]
			if rk >= 1 && rk <= len(pts) {
				byTable[k] = append(byTable[k], pts[rk-1])
			}
		}
		if _, ok := byTable[k]; !ok {
			byTable[k] = nil
		}
		if fmt.Sprint(tb.Apps) != fmt.Sprint(tb.Routed) {
			w.modelLoss = append(w.modelLoss, fmt.Sprintf("follower %d table %d reflects %v of leader %d, routed subset is %v", tb.F, tb.T, tb.Apps, tb.L, tb.Routed))
		}
	}
	for _, f := range w.c.Followers {
		if !f.up {
			continue
		}
		for ti, t := range w.cfg.Tables {
			idxs := byTable[fmt.Sprintf("%d/%d", f.ID, ti)]
			sort.Ints(idxs)
			var pts []dbk.Point
			for _, i := range idxs {
				pts = append(pts, w.cfg.Points[i])
			}
			want, err := specView(ctx, t, pts)
			if err != nil {
				return nil, err
			}
			got, serr := scanView(f.db, t)
			if serr != nil {
				continue
			}
			if d := diffViews(got, want); d != "" {
				w.modelMatchesData = false
				ties = append(ties, fmt.Sprintf("model end state vs real table: follower %s table %s: %s (stored vs spec of the model's applications)", fid(f.Part, f.ID), t.S.Table, d))
			}
		}
	}
	ctx.Res.Hit("trace-accepted")
	return ties, nil
}

func (w *world) tryModel(ctx *hk.RunCtx, fixed bool) (mo modelOut, req map[string]interface{}, clean bool, err error) {
	req = w.modelRequest(fixed)
	out, err := ctx.Model.Call(req)
	if err != nil {
		return mo, req, false, err
	}
	if err := json.Unmarshal(out, &mo); err != nil {
		return mo, req, false, err
	}
	return mo, req, mo.Accepted && len(mo.Mismatches) == 0, nil
}

// matchReplFinding: a lost point is the known defect of makeFollows as found (EarliestOffset =
// minimum over the tables that HAVE an offset for the source, so a table restarted without one
// starts at another table's offset) exactly when the as-found protocol model accepts the whole
// observed trace, predicts the loss, and its end state is what the real tables hold.
func (w *world) matchReplFinding(msg string) string {
	if w.variant == "as-found" && w.modelMatchesData && len(w.modelLoss) > 0 {
		return "C12-earliest-offset-skips-unflushed-table"
	}
	return ""
}

func keysOf(m map[string]interface{}) []string {
	var ks []string
	for k := range m {
		ks = append(ks, k)
	}
	return ks
}
