package cluster

import (
	"errors"
	"fmt"
	"os"
	"sort"
	"strconv"
	"strings"
	"time"

	"github.com/getlantern/bytemap"
	"github.com/getlantern/zenodb"
	"github.com/getlantern/zenodb/core"

	"zvh/dbk"
	"zvh/hk"
)

type propFail struct{ prop, msg, finding string }

type offKey struct{ seq, pos int64 }

func parseOff(s string) offKey {
	i := strings.LastIndex(s, ":")
	if i < 0 {
		return offKey{}
	}
	a, _ := strconv.ParseInt(s[:i], 10, 64)
	b, _ := strconv.ParseInt(s[i+1:], 10, 64)
	return offKey{a, b}
}

func (a offKey) less(b offKey) bool { return a.seq < b.seq || (a.seq == b.seq && a.pos < b.pos) }

// ranker maps the WAL offsets of one leader to ranks 1..n (rank of an arbitrary offset = the
// number of entry offsets <= it; only the order of offsets is ever used by the code).
type ranker struct {
	offs []offKey
}

func newRanker(evs []Ev, leader int) *ranker {
	seen := map[offKey]bool{}
	rk := &ranker{}
	for _, e := range evs {
		if e.Name == "route" && e.L == leader {
			k := parseOff(e.Off)
			if !seen[k] {
				seen[k] = true
				rk.offs = append(rk.offs, k)
			}
		}
	}
	sort.Slice(rk.offs, func(i, j int) bool { return rk.offs[i].less(rk.offs[j]) })
	return rk
}

func (rk *ranker) rank(s string) int {
	k := parseOff(s)
	return sort.Search(len(rk.offs), func(i int) bool { return k.less(rk.offs[i]) })
}

// isEntry reports whether the offset is exactly the offset of a WAL entry.
func (rk *ranker) isEntry(s string) bool {
	k := parseOff(s)
	i := rk.rank(s)
	return i > 0 && rk.offs[i-1] == k
}

// world is what a finished run is judged against.
type world struct {
	cfg      *config
	c        *Cluster
	evs      []Ev
	rankers  map[int]*ranker
	pointsOf map[int][]int // leader id -> point indices in WAL order
	dims     []bytemap.ByteMap
	// set by modelAccept
	variant          string   // which makeFollows the accepted model has: "fixed" / "as-found"
	modelMatchesData bool     // the model's end state equals the real tables' contents
	modelLoss        []string // tables for which the model itself predicts a loss
}

func newWorld(cfg *config, c *Cluster) *world {
	w := &world{cfg: cfg, c: c, evs: c.log.snapshot(), rankers: map[int]*ranker{}, pointsOf: map[int][]int{}}
	for _, l := range c.Leaders {
		w.rankers[l.ID] = newRanker(w.evs, l.ID)
	}
	for _, e := range w.evs {
		if e.Name == "insert" {
			w.pointsOf[e.L] = append(w.pointsOf[e.L], e.Idx)
		}
	}
	for _, p := range cfg.Points {
		w.dims = append(w.dims, bytemap.New(p.Dims))
	}
	return w
}

// pointAt returns the index of the point stored at the given offset of the leader's WAL.
func (w *world) pointAt(leader int, off string) (int, bool) {
	rk := w.rankers[leader]
	if !rk.isEntry(off) {
		return 0, false
	}
	k := rk.rank(off)
	pts := w.pointsOf[leader]
	if k < 1 || k > len(pts) {
		return 0, false
	}
	return pts[k-1], true
}

func (w *world) whereOk(t *TableDef, i int) bool {
	if t.where == nil {
		return true
	}
	b, ok := t.where.Eval(w.dims[i]).(bool)
	return ok && b
}

// wants: the routing decision of the specification for point i, table t, partition p.
func (w *world) wants(t *TableDef, i int, p int) bool {
	return partitionFor(w.dims[i], t.PartitionBy, w.cfg.P) == p && w.whereOk(t, i)
}

// checkRouting compares every leader.route event with the independent routing function.
func (w *world) checkRouting(ctx *hk.RunCtx) (dis []string) {
	for _, e := range w.evs {
		if e.Name != "route" {
			continue
		}
		i, ok := w.pointAt(e.L, e.Off)
		if !ok {
			dis = append(dis, fmt.Sprintf("route event of leader %d at offset %s does not correspond to an inserted point", e.L, e.Off))
			continue
		}
		for _, kp := range e.Pids {
			j := strings.LastIndex(kp, "=")
			keys, pidS := kp[:j], kp[j+1:]
			pid, _ := strconv.Atoi(pidS)
			var ks []string
			if keys != "" {
				ks = strings.Split(keys, "|")
			}
			if want := partitionFor(w.dims[i], ks, w.cfg.P); want != pid {
				dis = append(dis, fmt.Sprintf("leader %d routed point %d %v under keys [%s] to partition %d, murmur3 re-statement says %d", e.L, i, w.cfg.Points[i].Dims, keys, pid, want))
			}
			ctx.Res.Hit(fmt.Sprintf("route:pid%d", pid))
		}
	}
	return
}

// applied returns, per follower table, the multiset of points applied (repl.apply with a key)
// since the follower's directory was created — across restarts the events of applications
// that never reached the disk are not undone here, so after faults use the data-level check.
func (w *world) applied() map[string]map[int]int {
	out := map[string]map[int]int{}
	for _, e := range w.evs {
		if e.Name != "apply" || !e.Flag {
			continue
		}
		k := fid(e.FP, e.F) + "/" + e.Table
		if out[k] == nil {
			out[k] = map[int]int{}
		}
		i, ok := w.pointAt(e.L, e.Off)
		if !ok {
			i = -1
		}
		out[k][i]++
	}
	return out
}

func (w *world) routedPoints(t *TableDef, p int) []int {
	var out []int
	for i := range w.cfg.Points {
		if w.wants(t, i, p) {
			out = append(out, i)
		}
	}
	return out
}

// checkFollowerData compares every follower table's stored content with the Lean raw-point
// spec of exactly the points routed to its partition.
func (w *world) checkFollowerData(ctx *hk.RunCtx, prop string) (fails []propFail, err error) {
	for _, f := range w.c.Followers {
		if !f.up {
			continue
		}
		for _, t := range w.cfg.Tables {
			var pts []dbk.Point
			for _, i := range w.routedPoints(t, f.Part) {
				pts = append(pts, w.cfg.Points[i])
			}
			want, err := specView(ctx, t, pts)
			if err != nil {
				return nil, err
			}
			got, serr := scanView(f.db, t)
			if serr != nil {
				return nil, fmt.Errorf("%w: scan of %s on %s: %v", errInfra, t.S.Table, fid(f.Part, f.ID), serr)
			}
			if d := diffViews(got, want); d != "" {
				fails = append(fails, propFail{prop, fmt.Sprintf("follower %s table %s (partitionBy %v) does not hold exactly the %d points routed to partition %d: %s (stored vs spec)",
					fid(f.Part, f.ID), t.S.Table, t.PartitionBy, len(pts), f.Part, d), ""})
			}
			ctx.Res.Hit("follower-table-checked")
		}
	}
	return
}

// checkRedundant: followers of the same partition hold identical contents.
func (w *world) checkRedundant(ctx *hk.RunCtx, prop string) (fails []propFail) {
	byPart := map[int][]*followerNode{}
	for _, f := range w.c.Followers {
		if f.up {
			byPart[f.Part] = append(byPart[f.Part], f)
		}
	}
	for p, fs := range byPart {
		for k := 1; k < len(fs); k++ {
			for _, t := range w.cfg.Tables {
				a, e1 := scanView(fs[0].db, t)
				b, e2 := scanView(fs[k].db, t)
				if e1 != nil || e2 != nil {
					continue
				}
				if d := diffViews(a, b); d != "" {
					fails = append(fails, propFail{prop, fmt.Sprintf("redundant followers %s and %s of partition %d differ on %s: %s",
						fid(fs[0].Part, fs[0].ID), fid(fs[k].Part, fs[k].ID), p, t.S.Table, d), ""})
				}
				ctx.Res.Hit("redundant-pair-checked")
			}
		}
	}
	return
}

func sortKeyOf(r flatRow, fields []string, col string) string {
	desc := strings.HasPrefix(col, "-")
	col = strings.TrimPrefix(col, "-")
	_ = desc
	if col == "_time" {
		return fmt.Sprint(r.TS)
	}
	for i, f := range fields {
		if f == col && i < len(r.Values) {
			return fmt.Sprint(r.Values[i] + 0) // -0 sorts like 0
		}
	}
	return fmt.Sprint(r.Key[col])
}

func sortKeys(rows []flatRow, fields []string, cols []string) []string {
	out := make([]string, len(rows))
	for i, r := range rows {
		var parts []string
		for _, c := range cols {
			parts = append(parts, sortKeyOf(r, fields, c))
		}
		out[i] = strings.Join(parts, "|")
	}
	return out
}

// includedIn: every row of a occurs in b (as a multiset).
func includedIn(a, b []flatRow, tol float64) string {
	used := make([]bool, len(b))
	for _, r := range a {
		found := false
		for i, s := range b {
			if !used[i] && rowID(r) == rowID(s) && valsEqual(r.Values, s.Values, tol) {
				used[i] = true
				found = true
				break
			}
		}
		if !found {
			return "cluster row " + rowText(r) + " is not a row of the standalone result without LIMIT"
		}
	}
	return ""
}

// compareQuery runs q on the leader and on the standalone database and judges the results.
func compareQuery(ctx *hk.RunCtx, leader *zenodb.DB, alone *zenodb.DB, q *qspec) (detail string, finding string) {
	defer func() {
		if detail != "" {
			finding = matchFinding(leader, q, detail)
		}
	}()
	detail = compareQuery0(ctx, leader, alone, q)
	return
}

func planOf(db *zenodb.DB, sqlText string) string {
	plan := ""
	hk.Recover(func() {
		src, err := db.Query(sqlText, false, nil, true)
		if err == nil {
			plan = core.FormatSource(src)
		}
	})
	return plan
}

// matchFinding attributes a cluster-vs-standalone difference to a known finding by the shape
// of the query (see known_findings.json); anything else is a violation.
func matchFinding(leader *zenodb.DB, q *qspec, detail string) string {
	if strings.Contains(detail, "Unable to plan non-pushdown query: Error parsing") {
		return "C11-D6-text-surgery"
	}
	if q.Table.coarse() && strings.Contains(planOf(leader, q.SQL), "cluster flat") {
		return "C10-pushdown-groupbyall-coarse-table"
	}
	if q.SubTbl != nil && q.SubTbl.coarse() && strings.Contains(planOf(leader, q.SubSQL), "cluster flat") {
		return "C10-pushdown-groupbyall-coarse-table"
	}
	if q.HasLen && strings.Contains(planOf(leader, q.SQL), "cluster flat") {
		// matcher of the C11 finding: some GROUP BY expression contains LEN( (pushed down)
		return "C11-len-declared-one-to-one"
	}
	if q.Offset && strings.Contains(planOf(leader, q.SQL), "cluster flat") {
		// matcher of the C11 finding: a pushed-down statement has OFFSET > 0
		return "C11-offset-applied-twice"
	}
	if strings.HasPrefix(detail, "only all-default rows differ") {
		return "empty-bucket-row"
	}
	return ""
}

// onlyDefaultRowsDiffer: the two results are equal once rows whose values are all 0 (what every
// selected expression reads from an EMPTY state; known finding empty-bucket-row: such rows
// exist or not depending on which operator saw the empty period) are left out on both sides.
func onlyDefaultRowsDiffer(a, b []flatRow, tol float64) bool {
	strip := func(rows []flatRow) []flatRow {
		var out []flatRow
		for _, r := range rows {
			zero := true
			for _, v := range r.Values {
				if v != 0 {
					zero = false
				}
			}
			if !zero {
				out = append(out, r)
			}
		}
		return out
	}
	return multisetDiff(strip(a), strip(b), tol) == ""
}

func compareQuery0(ctx *hk.RunCtx, leader *zenodb.DB, alone *zenodb.DB, q *qspec) (detail string) {
	cf, crows, cerr := runQuery(leader, q.SQL, 60*time.Second)
	sf, srows, serr := runQuery(alone, q.SQL, 60*time.Second)
	if cerr != nil && serr != nil {
		ctx.Res.Hit("q-both-error")
		if os.Getenv("ZVH_DEBUG") != "" {
			fmt.Fprintf(os.Stderr, "both-error: %s\n  cluster: %v\n  alone: %v\n", q.SQL, cerr, serr)
		}
		return ""
	}
	if cerr != nil || serr != nil {
		return fmt.Sprintf("errors differ: cluster %v, standalone %v", cerr, serr)
	}
	if strings.Join(cf, ",") != strings.Join(sf, ",") {
		return fmt.Sprintf("field lists differ: cluster %v, standalone %v", cf, sf)
	}
	if q.Limit == 0 {
		if d := multisetDiff(crows, srows, q.Tol); d != "" {
			if onlyDefaultRowsDiffer(crows, srows, q.Tol) {
				return "only all-default rows differ: " + d
			}
			return d
		}
	} else {
		if len(crows) != len(srows) {
			return fmt.Sprintf("LIMIT query returned %d rows on the cluster, %d standalone", len(crows), len(srows))
		}
		_, full, ferr := runQuery(alone, q.NoLimit, 60*time.Second)
		if ferr == nil {
			if d := includedIn(crows, full, q.Tol); d != "" {
				return d
			}
		}
		if len(q.OrderBy) == 0 {
			ctx.Res.Hit("q-limit-unordered")
		}
	}
	if len(q.OrderBy) > 0 {
		a, b := sortKeys(crows, cf, q.OrderBy), sortKeys(srows, sf, q.OrderBy)
		for i := range a {
			if i < len(b) && a[i] != b[i] {
				return fmt.Sprintf("ORDER BY %v: position %d has sort key %s on the cluster, %s standalone", q.OrderBy, i, a[i], b[i])
			}
		}
	}
	if len(crows) > 0 {
		ctx.Res.Hit("q-nonempty")
	}
	return ""
}

// runEquiv is one C10 case: a generated configuration, points through the leader(s), checks
// of routing, per-follower contents and generated queries against a standalone database.
func runEquiv(ctx *hk.RunCtx, r *hk.Rng, idx uint64, nQueries int, attempt int) (retry bool, err error) {
	return runEquivOn(ctx, r, idx, nQueries, false)
}

// coarseWitness is the built-in scenario of case index scriptedFrom (mode equiv): a table that
// keeps only dim d while it is partitioned by all dims (PartitionBy unset); the points of one
// stored key d=x differ in g, so they live on several partitions.  Before C10-fix-02 the
// pushed-down `SELECT * FROM t0` returns one partial row per partition.
func coarseWitness() (*config, []*qspec) {
	s, _ := schemaFromDef("t0", "a d")
	t := &TableDef{S: s}
	if q, err := dbk.ParseTable(s); err == nil {
		t.where, t.groupBy = q.Where, q.GroupBy
	}
	cfg := &config{P: 3, NLeaders: 1, PerPart: 1, Tables: []*TableDef{t}, FlushAt: map[int][][2]int{}}
	for i := 0; i < 12; i++ {
		cfg.Points = append(cfg.Points, dbk.Point{TS: dbk.Base.Add(time.Duration(i%3) * time.Second),
			Dims: map[string]interface{}{"d": "x", "g": fmt.Sprint(i)}, Vals: map[string]interface{}{"a": float64(i + 1)}})
		cfg.LeaderOf = append(cfg.LeaderOf, 0)
	}
	var qs []*qspec
	for _, text := range []string{"SELECT * FROM t0", "SELECT f0 FROM t0 GROUP BY *", "SELECT f0 FROM t0 GROUP BY d", "SELECT f0 FROM t0 GROUP BY d, period(3s)"} {
		qs = append(qs, &qspec{SQL: text, NoLimit: text, Table: t, Kind: "witness"})
	}
	return cfg, qs
}

// keyFnWitness is the built-in scenario of case index scriptedFrom+1 (mode equiv): a table
// GROUP BY d, g partitioned by [d] on 3 partitions; 10 values of d share 2 first characters /
// '-' parts, so a GROUP BY over SUBSTR / SPLIT / REPLACEALL / DECODE / CONCAT of the partition
// key has groups spanning partitions and must NOT be pushed down whole (pushdownAllowed keeps
// a key only through goexpr's WalkOneToOneParams); with HAVING / ORDER BY / LIMIT on top and
// as the innermost FROM-subquery.
func keyFnWitness() (*config, []*qspec) {
	s, _ := schemaFromDef("t0", "a,b d,g")
	t := &TableDef{S: s, PartitionBy: []string{"d"}}
	if q, err := dbk.ParseTable(s); err == nil {
		t.where, t.groupBy = q.Where, q.GroupBy
	}
	cfg := &config{P: 3, NLeaders: 1, PerPart: 1, Tables: []*TableDef{t}, FlushAt: map[int][][2]int{}}
	ds := []string{"xa", "xb", "xc", "x-1", "x-2", "ya", "yb", "y-1", "yc-1", "x"}
	for i := 0; i < 30; i++ {
		cfg.Points = append(cfg.Points, dbk.Point{TS: dbk.Base.Add(time.Duration(i%4) * time.Second),
			Dims: map[string]interface{}{"d": ds[i%len(ds)], "g": fmt.Sprint(i % 3)},
			Vals: map[string]interface{}{"a": float64(i%5 + 1), "b": float64(i % 4)}})
		cfg.LeaderOf = append(cfg.LeaderOf, 0)
	}
	var qs []*qspec
	add := func(text string, order []string, limit int) {
		q := &qspec{SQL: text, NoLimit: text, Table: t, Kind: "witness", OrderBy: order, Limit: limit}
		if limit > 0 {
			q.SQL = fmt.Sprintf("%s LIMIT %d", text, limit)
		}
		qs = append(qs, q)
	}
	add("SELECT f0, f1 FROM t0 GROUP BY SUBSTR(d, 0, 1) AS kd", nil, 0)
	add("SELECT f0 FROM t0 GROUP BY SPLIT(d, '-', 0) AS kd, g", nil, 0)
	add("SELECT _points, f0 FROM t0 GROUP BY REPLACEALL(d, '[abc0-9-]', '') AS kd, period(2s)", nil, 0)
	add("SELECT f0 FROM t0 GROUP BY DECODE(d, 'x', 'X', 'other') AS kd", nil, 0)
	add("SELECT f0 FROM t0 GROUP BY CONCAT('_', d, g) AS kdg", nil, 0)
	add("SELECT f0 FROM t0 GROUP BY ANY(d, g) AS kdg", nil, 0)
	add("SELECT f0, f1 FROM t0 GROUP BY SUBSTR(d, 0, 1) AS kd HAVING _points > 3 ORDER BY f0 DESC", []string{"-f0"}, 0)
	add("SELECT f0 FROM t0 GROUP BY SUBSTR(d, 0, 1) AS kd, g ORDER BY f0, kd, g", []string{"f0", "kd", "g"}, 2)
	add("SELECT f0 FROM (SELECT f0 FROM t0 GROUP BY SUBSTR(d, 0, 1) AS kd, g) GROUP BY kd", nil, 0)
	add("SELECT f0 FROM (SELECT f0 FROM t0 GROUP BY SPLIT(d, '-', 0) AS kd) GROUP BY *", nil, 0)
	add("SELECT f0 FROM t0 GROUP BY d", nil, 0)
	return cfg, qs
}

func runEquivOn(ctx *hk.RunCtx, r *hk.Rng, idx uint64, nQueries int, grpc bool) (retry bool, err error) {
	cfg := genConfig(r, 70)
	var fixedQueries []*qspec
	if idx == scriptedFrom {
		cfg, fixedQueries = coarseWitness()
		ctx.Res.Hit("scripted-scenario")
	}
	if idx == scriptedFrom+1 {
		cfg, fixedQueries = keyFnWitness()
		ctx.Res.Hit("scripted-scenario")
	}
	var c *Cluster
	if grpc {
		if cfg.P*cfg.PerPart > 4 {
			cfg.PerPart = 1
		}
		var closeAll func()
		c, closeAll, err = NewGRPCCluster(cfg.Tables, cfg.P, cfg.NLeaders, cfg.PerPart)
		defer closeAll()
		// forced flushes address followers by index
		nf := cfg.P * cfg.PerPart
		for i, fl := range cfg.FlushAt {
			var keep [][2]int
			for _, ft := range fl {
				if ft[0] < nf {
					keep = append(keep, ft)
				}
			}
			cfg.FlushAt[i] = keep
		}
	} else {
		c, err = NewCluster(cfg.Tables, cfg.P, cfg.NLeaders, cfg.PerPart)
		if c != nil {
			defer c.Close()
		}
	}
	if err != nil {
		if errors.Is(err, errInfra) {
			return true, nil
		}
		return false, err
	}
	alone, err := dbk.Open(dbk.Opts{})
	if err != nil {
		return false, err
	}
	defer alone.CloseAndRemove()
	for _, t := range cfg.Tables {
		if err := alone.CreateTable(t.S); err != nil {
			ctx.Res.Hit("create-table-error")
			return false, nil
		}
	}
	accepted := 0
	for i, p := range cfg.Points {
		l := c.Leaders[cfg.LeaderOf[i]]
		if err := c.Insert(l, i, p); err != nil {
			return false, fmt.Errorf("leader insert: %v", err)
		}
		if err := alone.Insert(stream, p); err != nil {
			return false, fmt.Errorf("standalone insert: %v", err)
		}
		accepted++
		for _, ft := range cfg.FlushAt[i] {
			c.Followers[ft[0]].db.VerifForceFlush(cfg.Tables[ft[1]].S.Table)
			ctx.Res.Hit("forced-flush")
		}
	}
	if ok, why := c.Quiesce(60 * time.Second); !ok {
		ctx.Res.Note("case %d: cluster did not quiesce: %s", idx, why)
		return true, nil
	}
	if !alone.Quiesce(30 * time.Second) {
		return true, nil
	}
	// nodes of a cluster share the wall clock; under virtual time the harness aligns them
	now := dbk.Base
	for _, p := range cfg.Points {
		if p.TS.After(now) {
			now = p.TS
		}
	}
	for _, l := range c.Leaders {
		l.db.VerifAdvanceClock(now)
	}
	for _, f := range c.Followers {
		f.db.VerifAdvanceClock(now)
	}
	alone.DB.VerifAdvanceClock(now)

	w := newWorld(cfg, c)
	modeName := "equiv"
	if grpc {
		modeName = "grpc"
	}
	caseJSON := map[string]interface{}{"engine": "cluster", "mode": modeName, "seed": ctx.Seed, "index": idx, "config": cfg.summary()}
	var fails []propFail
	var ties []string

	// (A) routing function
	ties = append(ties, w.checkRouting(ctx)...)
	// (B) exactly-once per partition, from the application events
	ap := w.applied()
	for _, f := range c.Followers {
		for _, t := range cfg.Tables {
			got := ap[fid(f.Part, f.ID)+"/"+t.S.Table]
			want := map[int]bool{}
			for _, i := range w.routedPoints(t, f.Part) {
				want[i] = true
			}
			for i, n := range got {
				if !want[i] {
					fails = append(fails, propFail{"C10", fmt.Sprintf("follower %s applied point %d %v to %s although it routes to partition %d", fid(f.Part, f.ID), i, cfg.Points[max(i, 0)].Dims, t.S.Table, partitionFor(w.dims[max(i, 0)], t.PartitionBy, cfg.P)), ""})
				} else if n != 1 {
					fails = append(fails, propFail{"C10", fmt.Sprintf("follower %s applied point %d to %s %d times", fid(f.Part, f.ID), i, t.S.Table, n), ""})
				}
			}
			for i := range want {
				if got[i] == 0 {
					fails = append(fails, propFail{"C10", fmt.Sprintf("follower %s never applied point %d %v to %s (partitionBy %v) although it routes to partition %d", fid(f.Part, f.ID), i, cfg.Points[i].Dims, t.S.Table, t.PartitionBy, f.Part), ""})
				}
			}
		}
	}
	// every accepted point is applied by exactly one partition of each table
	for _, t := range cfg.Tables {
		for i := range cfg.Points {
			n := 0
			for p := 0; p < cfg.P; p++ {
				if partitionFor(w.dims[i], t.PartitionBy, cfg.P) == p {
					n++
				}
			}
			if n != 1 {
				fails = append(fails, propFail{"C10", fmt.Sprintf("point %d maps to %d partitions of %s", i, n, t.S.Table), ""})
			}
		}
	}
	// (C) stored contents vs the Lean raw-point spec of the routed subset
	df, err := w.checkFollowerData(ctx, "C10")
	if err != nil {
		if errors.Is(err, errInfra) {
			return true, nil
		}
		return false, err
	}
	fails = append(fails, df...)
	fails = append(fails, w.checkRedundant(ctx, "C10")...)

	// (E) the model accepts the trace and predicts the same application sets
	if md, merr := w.modelAccept(ctx); merr != nil {
		return false, merr
	} else {
		ties = append(ties, md...)
	}

	// (D) generated queries: leader vs standalone
	nontrivial := len(cfg.Points) >= 10 && cfg.P >= 2
	ctx.Res.Count(caseJSON, nontrivial)
	ctx.Res.Hit(fmt.Sprintf("P:%d", cfg.P))
	ctx.Res.Hit(fmt.Sprintf("leaders:%d", cfg.NLeaders))
	ctx.Res.Hit(fmt.Sprintf("perPart:%d", cfg.PerPart))
	for _, t := range cfg.Tables {
		ctx.Res.Hit("partitionBy:" + keySetID(t.PartitionBy))
	}
	if fixedQueries != nil {
		nQueries = len(fixedQueries)
	}
	for k := 0; k < nQueries; k++ {
		t := cfg.Tables[r.Intn(len(cfg.Tables))]
		q := genQuery(r, cfg.Tables, t, now)
		if fixedQueries != nil {
			q = fixedQueries[k]
		}
		ld := c.Leaders[r.Intn(len(c.Leaders))]
		d, finding := compareQuery(ctx, ld.db, alone.DB, q)
		ctx.Res.Hit("q:" + q.Kind)
		if d != "" {
			fails = append(fails, propFail{"C10", fmt.Sprintf("query %q: %s", q.SQL, d), finding})
		}
	}
	// queries of the class "GROUP BY expressions over partition keys", in every configuration
	if fixedQueries == nil {
		nKey := 8
		if nQueries > 20 {
			nKey = 16
		}
		var keyed []*TableDef
		for _, t := range cfg.Tables {
			if t.keyed() {
				keyed = append(keyed, t)
			}
		}
		for k := 0; k < nKey; k++ {
			t := cfg.Tables[r.Intn(len(cfg.Tables))]
			if len(keyed) > 0 && k%4 != 3 {
				t = keyed[r.Intn(len(keyed))]
			}
			q := genKeyFnQuery(r, t, now)
			ld := c.Leaders[r.Intn(len(c.Leaders))]
			d, finding := compareQuery(ctx, ld.db, alone.DB, q)
			ctx.Res.Hit("qk:" + q.Kind)
			if t.keyed() {
				ctx.Res.Hit("keyfn-on-keyed-table")
				if strings.Contains(planOf(ld.db, q.SQL), "cluster flat") {
					ctx.Res.Hit("keyfn-pushed-down")
				}
			}
			if d != "" {
				fails = append(fails, propFail{"C10", fmt.Sprintf("query %q: %s", q.SQL, d), finding})
			}
		}
	}
	for _, f := range fails {
		if os.Getenv("ZVH_DEBUG") != "" {
			fmt.Fprintf(os.Stderr, "case %d finding=%q %s\n", idx, f.finding, f.msg)
		}
		ctx.Res.Disagree(hk.Disagreement{Kind: "property", Case: caseJSON, Detail: f.prop + ": " + f.msg, PropertyFails: true, Prop: f.prop, Index: idx, Finding: activeFinding(f.finding)})
	}
	for _, d := range ties {
		ctx.Res.Disagree(hk.Disagreement{Kind: "model-vs-impl", Case: caseJSON, Detail: d, Index: idx})
	}
	traceValidated(ctx)
	return false, nil
}
