package store

// Mode "restart" — the clause of C03 that the script-level theorems do not cover: "… and whether
// or not the database was cleanly restarted in between".  Implementation-only oracle: the same
// accepted points with the same forced flushes are fed to two databases; one of them is also
// closed cleanly and reopened on its directory at generated positions.  The final
// memstore-inclusive views, and the disk-only views after a last flush, must be equal.
//
// To keep "the same accepted points" true under virtual time (a restarted database's clock
// starts again from the zero time, so it would accept points the other one rejects as too
// old) every generated timestamp lies within the retention window of all others.  Points that
// the table's WHERE clause skips stay in: they advance WAL offsets without storing anything,
// which is exactly what the persisted-offset bookkeeping across a restart has to get right
// (skip-only stretch, idle flush, stored points, data flush, restart).

import (
	"fmt"
	"time"

	"zvh/dbk"
	"zvh/hk"
)

type rop struct {
	kind string // ingest flush restart
	p    dbk.Point
}

func genRestartScript(r *hk.Rng) (*dbk.Schema, bool, []rop) {
	var s *dbk.Schema
	for tries := 0; tries < 12; tries++ {
		s = dbk.GenSchema(r, "t")
		if s.WhereC >= 0 || tries >= 8 {
			break // prefer tables with a WHERE clause: some points are skipped
		}
	}
	sorted := r.Chance(1, 5)
	// roomy retention: every timestamp must lie within the retention window of every other one
	if s.Retention < 8*s.Res {
		s.Retention = 8 * s.Res
	}
	span := int(s.Retention/s.Res) - 3
	if span < 2 {
		span = 2
	}
	if span > 40 {
		span = 40
	}
	at := func() time.Time {
		return dbk.Base.Add(time.Duration(r.Range(0, span))*s.Res + time.Duration(r.Range(0, 999))*time.Millisecond)
	}
	var ops []rop
	episodes := r.Range(2, 5)
	for e := 0; e < episodes; e++ {
		// a stretch of points (with a WHERE clause many are skipped), optionally an idle flush in
		// the middle of a skip-only run, more points, a data flush, a restart
		for i, n := 0, r.Range(1, 5); i < n; i++ {
			ops = append(ops, rop{kind: "ingest", p: dbk.GenPointAt(r, at(), false)})
		}
		if r.Chance(2, 3) {
			ops = append(ops, rop{kind: "flush"})
		}
		for i, n := 0, r.Range(0, 4); i < n; i++ {
			ops = append(ops, rop{kind: "ingest", p: dbk.GenPointAt(r, at(), false)})
		}
		if r.Chance(1, 2) {
			ops = append(ops, rop{kind: "flush"})
		}
		if r.Chance(3, 4) {
			ops = append(ops, rop{kind: "restart"})
		}
	}
	for i, n := 0, r.Range(0, 3); i < n; i++ {
		ops = append(ops, rop{kind: "ingest", p: dbk.GenPointAt(r, at(), false)})
	}
	return s, sorted, ops
}

// runRestartScript feeds the script to a fresh database; withRestarts = false ignores the
// restart steps.  It returns the final memstore-inclusive view and the disk-only view after a
// last forced flush (all periods: nothing is expired by construction).
func runRestartScript(s *dbk.Schema, sorted bool, ops []rop, withRestarts bool) (mem, disk map[string]string, note string, err error) {
	o := dbk.Opts{}
	if sorted {
		o.MaxMemoryRatio = 0.9
	}
	db, err := dbk.Open(o)
	if err != nil {
		return nil, nil, "", err
	}
	defer func() { db.CloseAndRemove() }()
	if err := db.CreateTable(s); err != nil {
		return nil, nil, "create-table-error", nil
	}
	all := s.AllFields()
	for _, op := range ops {
		switch op.kind {
		case "ingest":
			db.Insert(s.Stream, op.p)
		case "flush":
			if !db.Quiesce(10 * time.Second) {
				return nil, nil, "inconclusive", nil
			}
			db.VerifForceFlush(s.Table)
		case "restart":
			if !withRestarts {
				continue
			}
			if !db.Quiesce(10 * time.Second) {
				return nil, nil, "inconclusive", nil
			}
			dir := db.Dir
			db.DB.Close()
			db.DB.VerifForget()
			o2 := o
			o2.Dir = dir
			db2, err := dbk.Open(o2)
			if err != nil {
				return nil, nil, "", err
			}
			db = db2
			if err := db.CreateTable(s); err != nil {
				return nil, nil, "", fmt.Errorf("re-creating the table after a restart: %v", err)
			}
			// the WAL tail (entries after the persisted offsets) is replayed asynchronously
			if !db.QuiesceReplay(10 * time.Second) {
				return nil, nil, "inconclusive", nil
			}
		}
	}
	if !db.Quiesce(10 * time.Second) {
		return nil, nil, "inconclusive", nil
	}
	rows, _ := db.Scan(s.Table, nil, true)
	mem = semView(all, rows, s.Res, -1<<62)
	db.VerifForceFlush(s.Table)
	drows, _ := db.Scan(s.Table, nil, false)
	disk = semView(all, drows, s.Res, -1<<62)
	return mem, disk, "", nil
}

func restartCase(ctx *hk.RunCtx, r *hk.Rng, idx uint64) error {
	s, sorted, ops := genRestartScript(r)
	if _, err := dbk.ParseTable(s); err != nil {
		ctx.Res.Hit("schema-unparsable")
		return nil
	}
	nR, nF, nI := 0, 0, 0
	var desc []interface{}
	for _, o := range ops {
		switch o.kind {
		case "restart":
			nR++
			desc = append(desc, "restart")
		case "flush":
			nF++
			desc = append(desc, "flush")
		default:
			nI++
			desc = append(desc, map[string]interface{}{"ts": o.p.TS.UnixNano(), "dims": o.p.Dims, "vals": o.p.Vals})
		}
	}
	cj := map[string]interface{}{"engine": "store", "mode": "restart", "table": s.SQL(), "sorted": sorted, "ops": desc}
	ctx.Res.Count(cj, nR > 0 && nI >= 3)
	ctx.Res.Hit(fmt.Sprintf("restart:restarts=%d", nR))
	if s.WhereC >= 0 {
		ctx.Res.Hit("restart:table-with-where")
	}
	memA, diskA, note, err := runRestartScript(s, sorted, ops, false)
	if err != nil {
		return err
	}
	if note != "" {
		ctx.Res.Hit("restart:" + note)
		if note == "inconclusive" {
			ctx.Res.Inconclusive++
		}
		return nil
	}
	memB, diskB, note, err := runRestartScript(s, sorted, ops, true)
	if err != nil {
		return err
	}
	if note != "" {
		ctx.Res.Hit("restart:" + note)
		if note == "inconclusive" {
			ctx.Res.Inconclusive++
		}
		return nil
	}
	if d := diffViews(memA, memB); d != "" {
		ctx.Res.Disagree(hk.Disagreement{Kind: "property", Prop: "C03", PropertyFails: true, Case: cj, Index: idx,
			Detail: "C03: the memstore-inclusive view differs between the run without and the run with clean restarts: " + d})
	} else if d := diffViews(diskA, diskB); d != "" {
		ctx.Res.Disagree(hk.Disagreement{Kind: "property", Prop: "C03", PropertyFails: true, Case: cj, Index: idx,
			Detail: "C03: the disk-only view after the last flush differs between the run without and the run with clean restarts: " + d})
	} else if d := diffViews(memA, diskA); d != "" {
		ctx.Res.Disagree(hk.Disagreement{Kind: "property", Prop: "C03", PropertyFails: true, Case: cj, Index: idx,
			Detail: "C03: after the last flush the disk-only view differs from the memstore-inclusive one: " + d})
	}
	return nil
}
