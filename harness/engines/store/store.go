// Package store is the correspondence engine for the row store (M-STORE): scripts of
// inserts, forced flushes (sorted or not) and raw table scans are run against a real
// embedded zenodb and against the Lean model; every scan is compared sequence by
// sequence.  Modes add the property oracles of C01 (raw-point spec), C03 (flush
// schedule independence) and C14 (retention).
package store

import (
	"encoding/json"
	"fmt"
	"reflect"
	"time"

	"github.com/getlantern/zenodb/core"

	"zvh/dbk"
	"zvh/hk"
)

type Engine struct{}

type op struct {
	Kind   string // ingest flush iterate
	P      dbk.Point
	Fields []int // indexes into AllFields for iterate (nil = all)
	Mem    bool
}

type script struct {
	S      *dbk.Schema
	Sorted bool
	Ops    []op
}

func genScript(r *hk.Rng, exotic bool) *script {
	sc := &script{S: dbk.GenSchema(r, "t")}
	sc.Sorted = r.Chance(1, 5)
	s := sc.S
	cur := dbk.Base
	n := r.Range(3, 28)
	for i := 0; i < n; i++ {
		c := r.Intn(20)
		switch {
		case c < 14:
			// timestamps: around the current head, on boundaries, late, far ahead
			var ts time.Time
			switch r.Intn(10) {
			case 0:
				ts = cur.Add(-time.Duration(r.Range(0, 6)) * s.Res) // late / out of order
			case 1:
				ts = cur.Add(-s.Retention + time.Duration(r.Range(-2, 2))*s.Res) // at the retention edge
			case 2:
				ts = cur.Truncate(s.Res) // exact boundary
			case 3:
				ts = cur.Truncate(s.Res).Add(time.Nanosecond)
			case 4:
				ts = cur.Add(time.Duration(r.Range(1, 12)) * s.Res) // jump ahead
			default:
				ts = cur.Add(time.Duration(r.Range(0, int(s.Res/time.Millisecond))) * time.Millisecond)
			}
			if ts.After(cur) {
				cur = ts
			}
			sc.Ops = append(sc.Ops, op{Kind: "ingest", P: dbk.GenPointAt(r, ts, exotic)})
		case c < 17:
			sc.Ops = append(sc.Ops, op{Kind: "flush"})
		default:
			o := op{Kind: "iterate", Mem: r.Chance(3, 4)}
			if r.Chance(1, 2) {
				all := len(s.AllFields())
				for j := 0; j < all; j++ {
					if r.Chance(1, 2) {
						o.Fields = append(o.Fields, j)
					}
				}
				if len(o.Fields) == 0 {
					o.Fields = nil
				}
			}
			sc.Ops = append(sc.Ops, o)
		}
	}
	sc.Ops = append(sc.Ops, op{Kind: "iterate", Mem: true}, op{Kind: "iterate", Mem: false})
	return sc
}

func sameJSON(a interface{}, b interface{}) bool {
	ab, _ := json.Marshal(a)
	bb, _ := json.Marshal(b)
	var x, y interface{}
	json.Unmarshal(ab, &x)
	json.Unmarshal(bb, &y)
	return reflect.DeepEqual(x, y)
}

func (Engine) Run(ctx *hk.RunCtx) error {
	ctx.Res.Rule = "generated (schema, script of inserts / forced flushes / raw scans); distinct by canonical model request; non-trivial = at least 2 accepted inserts and one flush or a mixed mem/file scan"
	for i := 0; i < ctx.N; i++ {
		idx := uint64(ctx.From + i)
		r := hk.Derive(ctx.Seed, idx)
		if err := oneCase(ctx, r, idx); err != nil {
			return err
		}
	}
	return nil
}

func oneCase(ctx *hk.RunCtx, r *hk.Rng, idx uint64) error {
	exotic := r.Chance(1, 3)
	sc := genScript(r, exotic)
	s := sc.S
	q, err := dbk.ParseTable(s)
	if err != nil {
		ctx.Res.Hit("schema-unparsable")
		return nil
	}
	o := dbk.Opts{}
	if sc.Sorted {
		o.MaxMemoryRatio = 0.9
		ctx.Res.Hit("sorted-flush-mode")
	}
	db, err := dbk.Open(o)
	if err != nil {
		return err
	}
	defer db.CloseAndRemove()
	if err := db.CreateTable(s); err != nil {
		ctx.Res.Hit("create-table-error")
		ctx.Res.Note("create table failed: %v (%s)", err, s.SQL())
		return nil
	}
	if err := db.CheckFields(s); err != nil {
		ctx.Res.Hit("schema-mismatch")
		ctx.Res.Note("schema mismatch: %v", err)
		return nil
	}
	all := s.AllFields()
	tableFields := db.VerifFields(s.Table)

	mops := []interface{}{}
	implOuts := []interface{}{}
	nIngest, nFlush := 0, 0
	for _, o := range sc.Ops {
		switch o.Kind {
		case "ingest":
			if err := db.Insert(s.Stream, o.P); err != nil {
				ctx.Res.Hit("insert-error")
				continue
			}
			nIngest++
			mops = append(mops, map[string]interface{}{"op": "ingest", "p": o.P.ModelJSON(q.Where)})
			implOuts = append(implOuts, nil)
		case "flush":
			if !db.Quiesce(10 * time.Second) {
				ctx.Res.Inconclusive++
				return nil
			}
			db.VerifForceFlush(s.Table)
			nFlush++
			mops = append(mops, map[string]interface{}{"op": "flush", "sorted": sc.Sorted})
			implOuts = append(implOuts, nil)
		case "iterate":
			if !db.Quiesce(10 * time.Second) {
				ctx.Res.Inconclusive++
				return nil
			}
			var fields core.Fields
			fdefs := all
			mo := map[string]interface{}{"op": "iterate", "mem": o.Mem}
			if o.Fields != nil {
				names := []string{}
				fdefs = nil
				for _, j := range o.Fields {
					fields = append(fields, tableFields[j])
					fdefs = append(fdefs, all[j])
					names = append(names, all[j].Name)
				}
				mo["fields"] = names
			}
			rows, err := db.Scan(s.Table, fields, o.Mem)
			if err != nil {
				ctx.Res.Hit("scan-error")
				ctx.Res.Note("scan error: %v", err)
			}
			mops = append(mops, mo)
			implOuts = append(implOuts, dbk.RowsJSON(fdefs, rows))
		}
	}
	req := map[string]interface{}{"engine": "store", "cfg": s.CfgJSON(), "ops": mops}
	ctx.Res.Count(req, nIngest >= 2 && nFlush >= 1)
	ctx.Res.Hit(fmt.Sprintf("flushes:%d", min(nFlush, 5)))
	if exotic {
		ctx.Res.Hit("exotic-values")
	}
	out, err := ctx.Model.Call(req)
	if err != nil {
		return err
	}
	var mo struct {
		Outs []struct {
			Rows    json.RawMessage `json:"rows"`
			Stopped bool            `json:"stopped"`
		} `json:"outs"`
	}
	if err := json.Unmarshal(out, &mo); err != nil {
		return err
	}
	for i, io := range implOuts {
		if io == nil {
			continue
		}
		mr, err := dbk.ModelRowsJSON(mo.Outs[i].Rows)
		if err != nil {
			return err
		}
		if mo.Outs[i].Stopped {
			ctx.Res.Hit("model:scan-stopped-early")
		}
		if !sameJSON(io, mr) {
			ctx.Res.Disagree(hk.Disagreement{Kind: "model-vs-impl", Case: req, Impl: io, Model: mr,
				Detail: fmt.Sprintf("raw scan (op %d) differs", i), Index: idx})
			return nil
		}
	}
	return nil
}
