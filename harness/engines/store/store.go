// Package store is the correspondence engine for the row store (M-STORE): scripts of
// inserts, forced flushes (sorted or not) and raw table scans are run against a real
// embedded zenodb and against the Lean model; every scan is compared sequence by
// sequence.  Modes add the property oracles of C01 (raw-point spec), C03 (flush
// schedule independence) and C14 (retention).
package store

import (
	"encoding/json"
	"fmt"
	"reflect"
	"sort"
	"time"

	"github.com/getlantern/zenodb/core"
	"github.com/getlantern/zenodb/encoding"

	"zvh/gen"

	"zvh/dbk"
	"zvh/hk"
)

type Engine struct{}

type pf struct{ prop, msg string }

type op struct {
	Kind   string // ingest flush iterate
	P      dbk.Point
	Fields []int // indexes into AllFields for iterate (nil = all)
	Mem    bool
}

type script struct {
	S      *dbk.Schema
	Sorted bool
	Ops    []op
}

func genScript(r *hk.Rng, exotic bool, retentionMode bool) *script {
	sc := &script{S: dbk.GenSchema(r, "t")}
	if retentionMode {
		sc.S.Retention = sc.S.Res * time.Duration(hk.Pick(r, []int{1, 2, 3, 4, 6}))
	}
	sc.Sorted = r.Chance(1, 5)
	s := sc.S
	cur := dbk.Base
	n := r.Range(3, 28)
	if retentionMode {
		n = r.Range(20, 60)
	}
	for i := 0; i < n; i++ {
		c := r.Intn(20)
		if retentionMode && c >= 17 && r.Chance(2, 3) {
			c = 15 // more flushes, fewer scans
		}
		switch {
		case c < 14:
			// timestamps: around the current head, on boundaries, late, far ahead
			var ts time.Time
			switch r.Intn(10) {
			case 0:
				ts = cur.Add(-time.Duration(r.Range(0, 6)) * s.Res) // late / out of order
			case 1:
				ts = cur.Add(-s.Retention + time.Duration(r.Range(-2, 2))*s.Res) // at the retention edge
				if retentionMode && r.Chance(1, 2) {
					// less than one period on either side of the cut-off (the clock is the newest
					// timestamp so far, usually not on a period boundary)
					d := hk.Pick(r, []time.Duration{time.Nanosecond, time.Millisecond, s.Res / 3, s.Res / 2, s.Res - time.Millisecond, s.Res - time.Nanosecond})
					if r.Chance(2, 3) {
						d = -d
					}
					ts = cur.Add(-s.Retention + d)
				}
			case 2:
				ts = cur.Truncate(s.Res) // exact boundary
			case 3:
				ts = cur.Truncate(s.Res).Add(time.Nanosecond)
			case 4:
				ts = cur.Add(time.Duration(r.Range(1, 12)) * s.Res) // jump ahead
			default:
				ts = cur.Add(time.Duration(r.Range(0, int(s.Res/time.Millisecond))) * time.Millisecond)
			}
			if ts.After(cur) {
				cur = ts
			}
			sc.Ops = append(sc.Ops, op{Kind: "ingest", P: dbk.GenPointAt(r, ts, exotic)})
		case c < 17:
			sc.Ops = append(sc.Ops, op{Kind: "flush"})
		default:
			o := op{Kind: "iterate", Mem: r.Chance(3, 4)}
			if r.Chance(1, 2) {
				all := len(s.AllFields())
				for j := 0; j < all; j++ {
					if r.Chance(1, 2) {
						o.Fields = append(o.Fields, j)
					}
				}
				if len(o.Fields) == 0 {
					o.Fields = nil
				}
			}
			sc.Ops = append(sc.Ops, o)
		}
	}
	sc.Ops = append(sc.Ops, op{Kind: "iterate", Mem: true}, op{Kind: "iterate", Mem: false})
	return sc
}

// specView evaluates the Lean raw-point spec and renders it like semView.
func specView(ctx *hk.RunCtx, s *dbk.Schema, mpoints []interface{}, live int64, dup bool) (map[string]string, error) {
	sout, err := ctx.Model.Call(map[string]interface{}{"engine": "spec", "cfg": s.CfgJSON(), "points": mpoints, "dup": dup})
	if err != nil {
		return nil, err
	}
	var sp struct {
		Rows []struct {
			Key    map[string]interface{} `json:"key"`
			Period string                 `json:"period"`
			Cells  [][]interface{}        `json:"cells"`
		} `json:"rows"`
		Now string `json:"now"`
	}
	if err := json.Unmarshal(sout, &sp); err != nil {
		return nil, err
	}
	vSpec := map[string]string{}
	for _, r := range sp.Rows {
		var period int64
		fmt.Sscan(r.Period, &period)
		if period <= live {
			continue
		}
		ks := modelKeyString(r.Key)
		for fi, cells := range r.Cells {
			if isUnset(cells) {
				continue
			}
			b, _ := json.Marshal(cells)
			vSpec[fmt.Sprintf("%s|%d|%d", ks, period, fi)] = string(b)
		}
	}
	return vSpec, nil
}

func modelKeyString(m map[string]interface{}) string {
	ks := make([]string, 0, len(m))
	for k := range m {
		ks = append(ks, k)
	}
	sort.Strings(ks)
	out := ""
	for _, k := range ks {
		out += fmt.Sprintf("%s=%s;", k, m[k])
	}
	return out
}

func sameJSON(a interface{}, b interface{}) bool {
	ab, _ := json.Marshal(a)
	bb, _ := json.Marshal(b)
	var x, y interface{}
	json.Unmarshal(ab, &x)
	json.Unmarshal(bb, &y)
	return reflect.DeepEqual(x, y)
}

// isUnset reports whether a decoded period state has no cell set.
func isUnset(cells []interface{}) bool {
	for _, c := range cells {
		m := c.(map[string]interface{})
		for _, v := range m {
			if v != nil {
				return false
			}
		}
	}
	return true
}

// semView is the semantic content of a raw scan: (key, period end, field) -> state, for the
// periods ending after liveAfter (unix ns) whose state has at least one cell set.
func semView(fields []dbk.FieldDef, rows []dbk.RawRow, res time.Duration, liveAfter int64) map[string]string {
	out := map[string]string{}
	for _, r := range rows {
		ks := dbk.KeyString(r.Key)
		for i, f := range fields {
			if i >= len(r.Cols) {
				continue
			}
			addSeq(out, ks, i, f.Node, r.Cols[i], res, liveAfter)
		}
	}
	return out
}

func addSeq(out map[string]string, ks string, fi int, n *gen.Node, s encoding.Sequence, res time.Duration, liveAfter int64) {
	if len(s) == 0 {
		return
	}
	w := n.Build().EncodedWidth()
	for p := 0; p < s.NumPeriods(w); p++ {
		end := s.UntilInt() - int64(p)*int64(res)
		if end <= liveAfter {
			continue
		}
		cells, _ := n.DecodeCells(s[8+p*w : 8+(p+1)*w])
		if isUnset(cells) {
			continue
		}
		b, _ := json.Marshal(cells)
		out[fmt.Sprintf("%s|%d|%d", ks, end, fi)] = string(b)
	}
}

func parseViewKey(k string, ks *string, end *int64, fi *int) {
	// "<key>|<end>|<field>"
	i := len(k) - 1
	for i >= 0 && k[i] != '|' {
		i--
	}
	j := i - 1
	for j >= 0 && k[j] != '|' {
		j--
	}
	*ks = k[:j]
	fmt.Sscan(k[j+1:i], end)
	fmt.Sscan(k[i+1:], fi)
}

func diffViews(a, b map[string]string) string {
	for k, v := range a {
		if w, ok := b[k]; !ok {
			return fmt.Sprintf("%s: %s vs <absent>", k, v)
		} else if w != v {
			return fmt.Sprintf("%s: %s vs %s", k, v, w)
		}
	}
	for k, w := range b {
		if _, ok := a[k]; !ok {
			return fmt.Sprintf("%s: <absent> vs %s", k, w)
		}
	}
	return ""
}

func (Engine) Run(ctx *hk.RunCtx) error {
	ctx.Res.Rule = "generated (schema, script of inserts / forced flushes / raw scans); distinct by canonical model request; non-trivial = at least 2 accepted inserts and one flush or a mixed mem/file scan"
	for i := 0; i < ctx.N; i++ {
		idx := uint64(ctx.From + i)
		r := hk.Derive(ctx.Seed, idx)
		if err := oneCase(ctx, r, idx); err != nil {
			return err
		}
	}
	return nil
}

func oneCase(ctx *hk.RunCtx, r *hk.Rng, idx uint64) error {
	if ctx.Mode == "restart" {
		return restartCase(ctx, r, idx)
	}
	exotic := r.Chance(1, 3)
	retentionMode := ctx.Mode == "retention"
	sc := genScript(r, exotic, retentionMode)
	s := sc.S
	q, err := dbk.ParseTable(s)
	if err != nil {
		ctx.Res.Hit("schema-unparsable")
		return nil
	}
	o := dbk.Opts{}
	if sc.Sorted {
		o.MaxMemoryRatio = 0.9
		ctx.Res.Hit("sorted-flush-mode")
	}
	db, err := dbk.Open(o)
	if err != nil {
		return err
	}
	defer db.CloseAndRemove()
	if err := db.CreateTable(s); err != nil {
		ctx.Res.Hit("create-table-error")
		ctx.Res.Note("create table failed: %v (%s)", err, s.SQL())
		return nil
	}
	if err := db.CheckFields(s); err != nil {
		ctx.Res.Hit("schema-mismatch")
		ctx.Res.Note("schema mismatch: %v", err)
		return nil
	}
	all := s.AllFields()
	tableFields := db.VerifFields(s.Table)

	mops := []interface{}{}
	implOuts := []interface{}{}
	var propFail []pf
	gone := map[string]bool{} // (key|period|field) seen absent from disk after a truncating flush while strictly expired
	mpoints := []interface{}{}
	nIngest, nFlush := 0, 0
	var newest time.Time
	for _, o := range sc.Ops {
		switch o.Kind {
		case "ingest":
			// C14 oracle (implementation only): a point that is older than the retention period
			// when it is processed is never stored - the raw memstore-inclusive view of the table
			// (all periods) is the same before and after it
			var vOld map[string]string
			tooOld := false
			if retentionMode && !newest.IsZero() && o.P.TS.Before(newest.Add(-s.Retention)) && db.Quiesce(10*time.Second) &&
				o.P.TS.UnixNano() < db.VerifNow()-int64(s.Retention) {
				tooOld = true
				before, _ := db.Scan(s.Table, nil, true)
				vOld = semView(all, before, s.Res, -1<<62)
			}
			if err := db.Insert(s.Stream, o.P); err != nil {
				ctx.Res.Hit("insert-error")
				continue
			}
			if o.P.TS.After(newest) {
				newest = o.P.TS
			}
			if tooOld && db.Quiesce(10*time.Second) {
				ctx.Res.Hit("point-older-than-retention")
				if newest.Add(-s.Retention).Sub(o.P.TS) < s.Res {
					ctx.Res.Hit("point-less-than-one-period-too-old")
				}
				after, _ := db.Scan(s.Table, nil, true)
				if d := diffViews(vOld, semView(all, after, s.Res, -1<<62)); d != "" {
					propFail = append(propFail, pf{"C14", fmt.Sprintf("a point with timestamp %d, older than now-retention = %d when it was processed, was stored: %s", o.P.TS.UnixNano(), db.VerifNow()-int64(s.Retention), d)})
				}
			}
			nIngest++
			mp := o.P.ModelJSON(q.Where)
			mpoints = append(mpoints, mp)
			mops = append(mops, map[string]interface{}{"op": "ingest", "p": mp})
			implOuts = append(implOuts, nil)
		case "flush":
			if !db.Quiesce(10 * time.Second) {
				ctx.Res.Inconclusive++
				return nil
			}
			// C03 oracle (implementation only): a flush does not change what a
			// memstore-inclusive scan sees on live periods, and right after it a
			// disk-only scan sees the same
			live := db.VerifNow() - int64(s.Retention)
			before, _ := db.Scan(s.Table, nil, true)
			vBefore := semView(all, before, s.Res, live)
			vBefore0 := semView(all, before, s.Res, -1<<62)
			fcBefore := db.VerifFlushCount(s.Table)
			db.VerifForceFlush(s.Table)
			after, _ := db.Scan(s.Table, nil, true)
			disk, _ := db.Scan(s.Table, nil, false)
			vAfter := semView(all, after, s.Res, live)
			vDisk := semView(all, disk, s.Res, live)
			if d := diffViews(vBefore, vAfter); d != "" {
				propFail = append(propFail, pf{"C03", fmt.Sprintf("flush %d changed the memstore-inclusive view: %s", nFlush, d)})
			} else if d := diffViews(vAfter, vDisk); d != "" {
				propFail = append(propFail, pf{"C03", fmt.Sprintf("after flush %d the disk-only view differs from the memstore-inclusive one: %s", nFlush, d)})
			}
			// C14 oracles (implementation only)
			tbound := db.VerifNow() - int64(s.Retention)
			fcAfter := db.VerifFlushCount(s.Table)
			truncating := fcAfter > fcBefore && (fcAfter-1)%10 == 9
			allDisk := semView(all, disk, s.Res, -1<<62)
			if truncating {
				ctx.Res.Hit("truncating-flush")
				for k := range allDisk {
					var ks string
					var end int64
					var fi int
					parseViewKey(k, &ks, &end, &fi)
					if end <= tbound-int64(s.Res) {
						propFail = append(propFail, pf{"C14", fmt.Sprintf("period %s expired (ends at or before now-retention-resolution) but is still on disk after a truncating flush", k)})
						break
					}
				}
				// remember strictly expired periods that are gone now
				for k := range vBefore0 {
					var ks string
					var end int64
					var fi int
					parseViewKey(k, &ks, &end, &fi)
					if end < tbound {
						if _, still := allDisk[k]; !still {
							gone[k] = true
						}
					}
				}
			}
			for k := range allDisk {
				if gone[k] {
					propFail = append(propFail, pf{"C14", fmt.Sprintf("period %s had expired and been truncated from disk but is back", k)})
					break
				}
			}
			nFlush++
			mops = append(mops, map[string]interface{}{"op": "flush", "sorted": sc.Sorted})
			implOuts = append(implOuts, nil)
		case "iterate":
			if !db.Quiesce(10 * time.Second) {
				ctx.Res.Inconclusive++
				return nil
			}
			var fields core.Fields
			fdefs := all
			mo := map[string]interface{}{"op": "iterate", "mem": o.Mem}
			if o.Fields != nil {
				names := []string{}
				fdefs = nil
				for _, j := range o.Fields {
					fields = append(fields, tableFields[j])
					fdefs = append(fdefs, all[j])
					names = append(names, all[j].Name)
				}
				mo["fields"] = names
			}
			rows, err := db.Scan(s.Table, fields, o.Mem)
			if err != nil {
				ctx.Res.Hit("scan-error")
				ctx.Res.Note("scan error: %v", err)
			}
			mops = append(mops, mo)
			implOuts = append(implOuts, dbk.RowsJSON(fdefs, rows))
		}
	}
	req := map[string]interface{}{"engine": "store", "cfg": s.CfgJSON(), "ops": mops}
	ctx.Res.Count(req, nIngest >= 2 && nFlush >= 1)

	// C01 oracle: the final memstore-inclusive view equals the raw-point spec on live periods
	if db.Quiesce(10 * time.Second) {
		final, _ := db.Scan(s.Table, nil, true)
		live := db.VerifNow() - int64(s.Retention)
		vFinal := semView(all, final, s.Res, live)
		vSpec, err := specView(ctx, s, mpoints, live, false)
		if err != nil {
			return err
		}
		if d := diffViews(vFinal, vSpec); d != "" {
			// known finding C01-array-double: the view equals the spec in which every
			// extra array element is counted twice; anything else is a violation
			vDup, err := specView(ctx, s, mpoints, live, true)
			if err != nil {
				return err
			}
			if diffViews(vFinal, vDup) == "" {
				ctx.Res.KnownFinding("C01-array-double")
			} else {
				propFail = append(propFail, pf{"C01", "final view differs from the raw-point spec (impl vs spec): " + d})
			}
		}
	}
	for _, f := range propFail {
		ctx.Res.Disagree(hk.Disagreement{Kind: "property", Case: req, Detail: f.prop + ": " + f.msg, PropertyFails: true, Prop: f.prop, Index: idx})
	}
	ctx.Res.Hit(fmt.Sprintf("flushes:%d", min(nFlush, 5)))
	if exotic {
		ctx.Res.Hit("exotic-values")
	}
	out, err := ctx.Model.Call(req)
	if err != nil {
		return err
	}
	var mo struct {
		Outs []struct {
			Rows    json.RawMessage `json:"rows"`
			Stopped bool            `json:"stopped"`
		} `json:"outs"`
		ProjMismatch []interface{} `json:"projMismatch"`
	}
	if err := json.Unmarshal(out, &mo); err != nil {
		return err
	}
	if len(mo.ProjMismatch) > 0 {
		ctx.Res.Disagree(hk.Disagreement{Kind: "model-vs-model", Case: req, Model: mo.ProjMismatch,
			Detail: "one-column model (Model/Column.lean) and store model disagree on a column", Index: idx})
	}
	for i, io := range implOuts {
		if io == nil {
			continue
		}
		mr, err := dbk.ModelRowsJSON(mo.Outs[i].Rows)
		if err != nil {
			return err
		}
		if mo.Outs[i].Stopped {
			ctx.Res.Hit("model:scan-stopped-early")
		}
		if !sameJSON(io, mr) {
			ctx.Res.Disagree(hk.Disagreement{Kind: "model-vs-impl", Case: req, Impl: io, Model: mr,
				Detail: fmt.Sprintf("raw scan (op %d) differs", i), Index: idx})
			return nil
		}
	}
	return nil
}
