// Package hk is the harness kit shared by all correspondence engines:
// deterministic PRNG, the zmodel line-protocol client, result accounting.
package hk

import (
	"bufio"
	"crypto/sha256"
	"encoding/hex"
	"encoding/json"
	"fmt"
	"io"
	"math/big"
	"os"
	"os/exec"
	"sort"
	"sync"
	"time"
)

// ---------------------------------------------------------------- PRNG

// Rng is splitmix64; every random choice of a case derives from one state.
type Rng struct{ s uint64 }

func NewRng(seed uint64) *Rng { return &Rng{s: seed*0x9E3779B97F4A7C15 + 0x1234567} }

// Derive returns an independent generator for (seed, index).
func Derive(seed uint64, idx uint64) *Rng {
	r := NewRng(seed ^ (idx+1)*0xBF58476D1CE4E5B9)
	r.Next()
	return r
}

func (r *Rng) Next() uint64 {
	r.s += 0x9E3779B97F4A7C15
	z := r.s
	z = (z ^ (z >> 30)) * 0xBF58476D1CE4E5B9
	z = (z ^ (z >> 27)) * 0x94D049BB133111EB
	return z ^ (z >> 31)
}

// Intn returns a value in [0, n).
func (r *Rng) Intn(n int) int {
	if n <= 0 {
		return 0
	}
	return int(r.Next() % uint64(n))
}

// Range returns a value in [lo, hi].
func (r *Rng) Range(lo, hi int) int { return lo + r.Intn(hi-lo+1) }
func (r *Rng) Bool() bool           { return r.Next()&1 == 1 }
func (r *Rng) Chance(num, den int) bool {
	return r.Intn(den) < num
}
func Pick[T any](r *Rng, xs []T) T { return xs[r.Intn(len(xs))] }

// ---------------------------------------------------------------- model client

// Model talks to the compiled Lean driver over stdin/stdout, one JSON per line.
type Model struct {
	cmd *exec.Cmd
	in  io.WriteCloser
	out *bufio.Reader
	mu  sync.Mutex
}

func ModelPath() string {
	if p := os.Getenv("ZMODEL"); p != "" {
		return p
	}
	return "/verif/lean/.lake/build/bin/zmodel"
}

func StartModel() (*Model, error) {
	cmd := exec.Command(ModelPath())
	in, err := cmd.StdinPipe()
	if err != nil {
		return nil, err
	}
	out, err := cmd.StdoutPipe()
	if err != nil {
		return nil, err
	}
	cmd.Stderr = os.Stderr
	if err := cmd.Start(); err != nil {
		return nil, err
	}
	return &Model{cmd: cmd, in: in, out: bufio.NewReaderSize(out, 1<<20)}, nil
}

// Call sends one request and returns the content of "ok", or an error carrying "err".
func (m *Model) Call(req interface{}) (json.RawMessage, error) {
	b, err := json.Marshal(req)
	if err != nil {
		return nil, err
	}
	m.mu.Lock()
	defer m.mu.Unlock()
	if _, err := m.in.Write(append(b, '\n')); err != nil {
		return nil, fmt.Errorf("model write: %w", err)
	}
	line, err := m.out.ReadBytes('\n')
	if err != nil {
		return nil, fmt.Errorf("model read: %w", err)
	}
	var resp struct {
		Ok  json.RawMessage `json:"ok"`
		Err string          `json:"err"`
	}
	if err := json.Unmarshal(line, &resp); err != nil {
		return nil, fmt.Errorf("model reply not JSON: %s", line)
	}
	if resp.Err != "" {
		return nil, fmt.Errorf("model error: %s", resp.Err)
	}
	return resp.Ok, nil
}

func (m *Model) Close() {
	m.in.Close()
	m.cmd.Wait()
}

// ---------------------------------------------------------------- rationals

// RatOfFloat renders a float64 exactly as "n" or "n/d".
func RatOfFloat(f float64) string {
	r := new(big.Rat)
	if r.SetFloat64(f) == nil {
		return "0"
	}
	return RatStr(r)
}

func RatStr(r *big.Rat) string {
	if r.IsInt() {
		return r.Num().String()
	}
	return r.Num().String() + "/" + r.Denom().String()
}

func ParseRat(s string) (*big.Rat, bool) { return new(big.Rat).SetString(s) }

// RatEqFloat compares a model rational with an implementation float64.
// tol == 0 demands exact equality; otherwise relative tolerance.
func RatEqFloat(s string, f float64, tol float64) bool {
	r, ok := ParseRat(s)
	if !ok {
		return false
	}
	fr := new(big.Rat)
	if fr.SetFloat64(f) == nil {
		return false
	}
	if r.Cmp(fr) == 0 {
		return true
	}
	if tol == 0 {
		return false
	}
	rf, _ := r.Float64()
	d := rf - f
	if d < 0 {
		d = -d
	}
	m := rf
	if m < 0 {
		m = -m
	}
	if af := f; af < 0 && -af > m {
		m = -af
	} else if af > m {
		m = af
	}
	return d <= tol*m || d <= 1e-300
}

// ---------------------------------------------------------------- results

// Disagreement is one case on which model and implementation (or the property
// oracle and the implementation) differ.
type Disagreement struct {
	Kind          string      `json:"kind"` // "model-vs-impl" | "property"
	Case          interface{} `json:"case"`
	Impl          interface{} `json:"impl,omitempty"`
	Model         interface{} `json:"model,omitempty"`
	Detail        string      `json:"detail,omitempty"`
	PropertyFails bool        `json:"property_fails"` // property oracle evaluated on the implementation fails
	Prop          string      `json:"prop,omitempty"`  // property the oracle belongs to ("" = the run's property)
	Finding       string      `json:"finding,omitempty"` // id of a matching known finding, if any
	Index         uint64      `json:"index"`
}

// Result is what an engine run reports to the orchestrator.
type Result struct {
	Engine            string         `json:"engine"`
	Property          string         `json:"property"`
	Tier              string         `json:"tier"`
	Seed              uint64         `json:"seed"`
	Evaluations       int            `json:"evaluations"`
	DistinctNontriv   int            `json:"distinct_nontrivial"`
	Rule              string         `json:"rule"`
	Samples           []interface{}  `json:"samples"`
	Histogram         map[string]int `json:"histogram"`
	Disagreements     []Disagreement `json:"disagreements"`
	NDisagreements    int            `json:"n_disagreements"`
	ByDetail          map[string]int `json:"by_detail"`
	Inconclusive      int            `json:"inconclusive"`
	TracesValidated   int            `json:"traces_validated_against_impl"`
	Exhaustive        bool           `json:"exhaustive"`
	KnownFindingsSeen map[string]int `json:"known_findings_seen"`
	WallS             float64        `json:"wall_s"`
	Notes             []string       `json:"notes,omitempty"`

	mu     sync.Mutex
	seen   map[string]bool
	start  time.Time
	maxDis int
}

func NewResult(engine, prop, tier string, seed uint64) *Result {
	return &Result{Engine: engine, Property: prop, Tier: tier, Seed: seed,
		Histogram: map[string]int{}, KnownFindingsSeen: map[string]int{}, ByDetail: map[string]int{},
		seen: map[string]bool{}, start: time.Now(), maxDis: 20}
}

// Count records one evaluated case; canon is its canonical form (hashed for
// distinctness), nontrivial is the engine's own rule.
func (r *Result) Count(canon interface{}, nontrivial bool) {
	b, _ := json.Marshal(canon)
	h := sha256.Sum256(b)
	k := hex.EncodeToString(h[:8])
	r.mu.Lock()
	defer r.mu.Unlock()
	r.Evaluations++
	if !r.seen[k] {
		r.seen[k] = true
		if nontrivial {
			r.DistinctNontriv++
		}
		if len(r.Samples) < 3 {
			r.Samples = append(r.Samples, canon)
		}
	}
}

func (r *Result) Hit(key string) {
	r.mu.Lock()
	r.Histogram[key]++
	r.mu.Unlock()
}

func (r *Result) Disagree(d Disagreement) {
	r.mu.Lock()
	defer r.mu.Unlock()
	if d.Finding != "" {
		r.KnownFindingsSeen[d.Finding]++
		return
	}
	r.NDisagreements++
	r.ByDetail[d.Kind+": "+d.Detail]++
	if r.ByDetail[d.Kind+": "+d.Detail] <= 3 && len(r.Disagreements) < r.maxDis {
		r.Disagreements = append(r.Disagreements, d)
	}
}

func (r *Result) KnownFinding(id string) {
	r.mu.Lock()
	r.KnownFindingsSeen[id]++
	r.mu.Unlock()
}

func (r *Result) Note(format string, args ...interface{}) {
	r.mu.Lock()
	r.Notes = append(r.Notes, fmt.Sprintf(format, args...))
	r.mu.Unlock()
}

func (r *Result) Finish(path string) error {
	r.WallS = time.Since(r.start).Seconds()
	// property failures first
	sort.SliceStable(r.Disagreements, func(i, j int) bool {
		return r.Disagreements[i].PropertyFails && !r.Disagreements[j].PropertyFails
	})
	b, err := json.MarshalIndent(r, "", " ")
	if err != nil {
		// some engine put an unprintable value into a disagreement (e.g. an empty
		// json.RawMessage): never lose the whole result over that - render the offending
		// parts as text and try again
		for i := range r.Disagreements {
			d := &r.Disagreements[i]
			if _, e := json.Marshal(d.Case); e != nil {
				d.Case = fmt.Sprint(d.Case)
			}
			if _, e := json.Marshal(d.Impl); e != nil {
				d.Impl = fmt.Sprint(d.Impl)
			}
			if _, e := json.Marshal(d.Model); e != nil {
				d.Model = fmt.Sprint(d.Model)
			}
		}
		b, err = json.MarshalIndent(r, "", " ")
		if err != nil {
			return err
		}
	}
	if path == "" || path == "-" {
		_, err = os.Stdout.Write(append(b, '\n'))
		return err
	}
	return os.WriteFile(path, b, 0o644)
}

// RunCtx is handed to an engine.
type RunCtx struct {
	Prop   string
	Tier   string
	Seed   uint64
	N      int
	From   int // first case index (cases are From .. From+N-1)
	Model  *Model
	Res    *Result
	Replay string // path of a replay/corpus file to run instead of generating
	Corpus string // corpus directory
	Mode   string
}

// Engine is one correspondence engine.
type Engine interface {
	Run(ctx *RunCtx) error
}

// Recover runs f and converts a panic into an error string.
func Recover(f func()) (panicked interface{}) {
	defer func() {
		if p := recover(); p != nil {
			panicked = p
		}
	}()
	f()
	return nil
}
