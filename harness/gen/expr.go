// Package gen holds the generators shared by the engines: expression trees
// (as real expr.Expr values and as the model's JSON), points, sequences.
package gen

import (
	"encoding/binary"
	"fmt"
	"math"
	"time"

	"github.com/getlantern/goexpr"
	"github.com/getlantern/zenodb/expr"

	"zvh/hk"
)

// Node is an expression tree that can be built both as the real expr.Expr and
// as the model's Ex (JSON).
type Node struct {
	Kind  string // field const agg avg bin if bounded shift unary
	Name  string // field name / aggregate name / op / unary fn
	Const float64
	C     int // condition id for IF
	Lo    float64
	Hi    float64
	Off   time.Duration
	Kids  []*Node
}

// Conds is the table of IF conditions a generated expression may use.  Each is
// a real goexpr over dims; the harness evaluates it itself to tell the model
// which conditions hold for a point.
var Conds []goexpr.Expr
var CondText []string

func init() {
	mk := func(op string, dim string, val interface{}) goexpr.Expr {
		e, err := goexpr.Binary(op, goexpr.Param(dim), goexpr.Constant(val))
		if err != nil {
			panic(err)
		}
		return e
	}
	Conds = []goexpr.Expr{mk("==", "d", "x"), mk("!=", "d", "x"), mk("==", "g", "1")}
	CondText = []string{"d = 'x'", "d <> 'x'", "g = '1'"}
}

var unaryNames = []string{"LN", "LOG2", "LOG10"}

func (n *Node) Build() expr.Expr {
	switch n.Kind {
	case "field":
		return expr.FIELD(n.Name)
	case "const":
		return expr.CONST(n.Const)
	case "agg":
		w := n.Kids[0].Build()
		switch n.Name {
		case "SUM":
			return expr.SUM(w)
		case "MIN":
			return expr.MIN(w)
		case "MAX":
			return expr.MAX(w)
		case "COUNT":
			return expr.COUNT(w)
		}
	case "avg":
		return expr.WAVG(n.Kids[0].Build(), n.Kids[1].Build())
	case "bin":
		l, r := n.Kids[0].Build(), n.Kids[1].Build()
		switch n.Name {
		case "+":
			return expr.ADD(l, r)
		case "-":
			return expr.SUB(l, r)
		case "*":
			return expr.MULT(l, r)
		case "/":
			return expr.DIV(l, r)
		case "<":
			return expr.LT(l, r)
		case "<=":
			return expr.LTE(l, r)
		case "=":
			return expr.EQ(l, r)
		case "<>":
			return expr.NEQ(l, r)
		case ">=":
			return expr.GTE(l, r)
		case ">":
			return expr.GT(l, r)
		case "AND":
			return expr.AND(l, r)
		case "OR":
			return expr.OR(l, r)
		}
	case "if":
		return expr.IF(Conds[n.C%100], n.Kids[0].Build())
	case "bounded":
		return expr.BOUNDED(n.Kids[0].Build(), n.Lo, n.Hi)
	case "shift":
		return expr.SHIFT(n.Kids[0].Build(), n.Off)
	case "unary":
		e, err := expr.UnaryMath(n.Name, n.Kids[0].Build())
		if err != nil {
			panic(err)
		}
		return e
	}
	panic(fmt.Sprintf("cannot build %+v", n))
}

func (n *Node) JSON() map[string]interface{} {
	switch n.Kind {
	case "field":
		return map[string]interface{}{"k": "field", "n": n.Name}
	case "const":
		return map[string]interface{}{"k": "const", "v": hk.RatOfFloat(n.Const)}
	case "agg":
		return map[string]interface{}{"k": "agg", "a": n.Name, "w": n.Kids[0].JSON()}
	case "avg":
		return map[string]interface{}{"k": "avg", "v": n.Kids[0].JSON(), "w": n.Kids[1].JSON()}
	case "bin":
		return map[string]interface{}{"k": "bin", "op": n.Name, "l": n.Kids[0].JSON(), "r": n.Kids[1].JSON()}
	case "if":
		return map[string]interface{}{"k": "if", "c": n.C, "w": n.Kids[0].JSON()}
	case "bounded":
		return map[string]interface{}{"k": "bounded", "w": n.Kids[0].JSON(), "lo": hk.RatOfFloat(n.Lo), "hi": hk.RatOfFloat(n.Hi)}
	case "shift":
		return map[string]interface{}{"k": "shift", "w": n.Kids[0].JSON(), "off": fmt.Sprint(int64(n.Off))}
	case "unary":
		f := 0
		for i, u := range unaryNames {
			if u == n.Name {
				f = i
			}
		}
		return map[string]interface{}{"k": "unary", "f": f, "w": n.Kids[0].JSON()}
	}
	panic("json: bad node")
}

// SQL renders the node in zenodb's SQL dialect (for engines that go through sql.Parse).
func (n *Node) SQL() string {
	switch n.Kind {
	case "field":
		return n.Name
	case "const":
		return fmt.Sprint(n.Const)
	case "agg":
		return fmt.Sprintf("%s(%s)", n.Name, n.Kids[0].SQL())
	case "avg":
		if n.Kids[1].Kind == "const" && n.Kids[1].Const == 1 {
			return fmt.Sprintf("AVG(%s)", n.Kids[0].SQL())
		}
		return fmt.Sprintf("WAVG(%s, %s)", n.Kids[0].SQL(), n.Kids[1].SQL())
	case "bin":
		return fmt.Sprintf("(%s %s %s)", n.Kids[0].SQL(), n.Name, n.Kids[1].SQL())
	case "if":
		return fmt.Sprintf("IF(%s, %s)", CondText[n.C%100], n.Kids[0].SQL())
	case "bounded":
		return fmt.Sprintf("BOUNDED(%s, %v, %v)", n.Kids[0].SQL(), n.Lo, n.Hi)
	case "shift":
		return fmt.Sprintf("SHIFT(%s, '%v')", n.Kids[0].SQL(), n.Off)
	case "unary":
		return fmt.Sprintf("%s(%s)", n.Name, n.Kids[0].SQL())
	}
	panic("sql: bad node")
}

// HasKind reports whether the tree contains a node of the given kind.
func (n *Node) HasKind(kind string) bool {
	if n.Kind == kind {
		return true
	}
	for _, k := range n.Kids {
		if k.HasKind(kind) {
			return true
		}
	}
	return false
}

// HasOp reports whether the tree contains a binary node with the given op.
func (n *Node) HasOp(op string) bool {
	if n.Kind == "bin" && n.Name == op {
		return true
	}
	for _, k := range n.Kids {
		if k.HasOp(op) {
			return true
		}
	}
	return false
}

func (n *Node) Size() int {
	s := 1
	for _, k := range n.Kids {
		s += k.Size()
	}
	return s
}

// DecodeCells turns the implementation's state bytes for this expression into
// the model's cell JSON (exact rationals), returning the remaining bytes.
func (n *Node) DecodeCells(b []byte) ([]interface{}, []byte) {
	switch n.Kind {
	case "field", "const":
		return nil, b
	case "agg":
		var c map[string]interface{}
		if b[0] == 1 {
			c = map[string]interface{}{"a": hk.RatOfFloat(math.Float64frombits(binary.BigEndian.Uint64(b[1:])))}
		} else {
			c = map[string]interface{}{"a": nil}
		}
		rest, b2 := n.Kids[0].DecodeCells(b[9:])
		return append([]interface{}{c}, rest...), b2
	case "avg":
		var c map[string]interface{}
		if b[0] == 1 {
			c = map[string]interface{}{"v": []interface{}{
				hk.RatOfFloat(math.Float64frombits(binary.BigEndian.Uint64(b[1:]))),
				hk.RatOfFloat(math.Float64frombits(binary.BigEndian.Uint64(b[9:])))}}
		} else {
			c = map[string]interface{}{"v": nil}
		}
		rest, b2 := n.Kids[0].DecodeCells(b[17:])
		return append([]interface{}{c}, rest...), b2
	case "bin":
		l, b1 := n.Kids[0].DecodeCells(b)
		r, b2 := n.Kids[1].DecodeCells(b1)
		return append(l, r...), b2
	default:
		return n.Kids[0].DecodeCells(b)
	}
}

// EncodeCells is the inverse of DecodeCells for model → bytes (used to build operands).
func (n *Node) Width() int { return n.Build().EncodedWidth() }

// ---------------------------------------------------------------- generation

// ExprOpts steers the generator.
type ExprOpts struct {
	Fields   []string // value field names
	MaxDepth int
	NoShift  bool
	NoUnary  bool
	NoIf     bool
	Res      time.Duration // shift offsets are multiples of this
}

var aggNames = []string{"SUM", "MIN", "MAX", "COUNT"}
var arithOps = []string{"+", "-", "*", "/"}
var condOps = []string{"<", "<=", "=", "<>", ">=", ">", "AND", "OR"}

// small dyadic constants
var consts = []float64{0, 1, 2, 3, -1, 0.5, 10, 0.25}

func genArg(r *hk.Rng, o ExprOpts) *Node {
	switch r.Intn(10) {
	case 0:
		return &Node{Kind: "const", Const: hk.Pick(r, consts)}
	case 1:
		lo := float64(r.Range(-2, 2))
		return &Node{Kind: "bounded", Lo: lo, Hi: lo + float64(r.Range(0, 6)),
			Kids: []*Node{{Kind: "field", Name: hk.Pick(r, o.Fields)}}}
	default:
		return &Node{Kind: "field", Name: hk.Pick(r, o.Fields)}
	}
}

// GenLeaf generates a stateful leaf: an aggregate or AVG/WAVG.
func GenLeaf(r *hk.Rng, o ExprOpts) *Node {
	if r.Chance(1, 4) {
		w := &Node{Kind: "const", Const: 1}
		if r.Chance(1, 2) {
			if r.Bool() {
				w = &Node{Kind: "field", Name: hk.Pick(r, o.Fields)}
			} else {
				w = &Node{Kind: "const", Const: hk.Pick(r, []float64{1, 2, 0.5, 0})}
			}
		}
		return &Node{Kind: "avg", Kids: []*Node{genArg(r, o), w}}
	}
	return &Node{Kind: "agg", Name: hk.Pick(r, aggNames), Kids: []*Node{genArg(r, o)}}
}

// GenExpr generates a valid field expression (passes Validate()).
func GenExpr(r *hk.Rng, o ExprOpts) *Node {
	return genExpr(r, o, o.MaxDepth, true)
}

func genExpr(r *hk.Rng, o ExprOpts, depth int, top bool) *Node {
	if depth <= 0 {
		return GenLeaf(r, o)
	}
	c := r.Intn(12)
	switch {
	case c < 4:
		return GenLeaf(r, o)
	case c < 7:
		op := hk.Pick(r, arithOps)
		if r.Chance(1, 4) {
			op = hk.Pick(r, condOps)
		}
		l := genExpr(r, o, depth-1, false)
		var rt *Node
		if r.Chance(1, 5) {
			rt = &Node{Kind: "const", Const: hk.Pick(r, consts)}
		} else {
			rt = genExpr(r, o, depth-1, false)
		}
		return &Node{Kind: "bin", Name: op, Kids: []*Node{l, rt}}
	case c < 8 && !o.NoIf:
		return &Node{Kind: "if", C: r.Intn(len(Conds)), Kids: []*Node{genExpr(r, o, depth-1, false)}}
	case c < 9 && !o.NoShift:
		res := o.Res
		if res == 0 {
			res = time.Second
		}
		return &Node{Kind: "shift", Off: -time.Duration(r.Range(0, 3)) * res, Kids: []*Node{genExpr(r, o, depth-1, false)}}
	case c < 10 && !o.NoUnary:
		return &Node{Kind: "unary", Name: hk.Pick(r, unaryNames), Kids: []*Node{genExpr(r, o, depth-1, false)}}
	case c < 11 && top:
		// BOUNDED over a stateful expression is valid only at the top (binary refuses it)
		lo := float64(r.Range(-3, 3))
		return &Node{Kind: "bounded", Lo: lo, Hi: lo + float64(r.Range(0, 10)), Kids: []*Node{GenLeaf(r, o)}}
	}
	return GenLeaf(r, o)
}

// ---------------------------------------------------------------- points

// Point is one update: values by field name, dims for IF conditions.
type Point struct {
	Vals map[string]float64
	Dims map[string]interface{}
}

var dimD = []interface{}{"x", "y", nil}
var dimG = []interface{}{"1", "2", nil}

func GenPoint(r *hk.Rng, fields []string) Point {
	p := Point{Vals: map[string]float64{}, Dims: map[string]interface{}{}}
	for _, f := range fields {
		if r.Chance(4, 5) {
			switch r.Intn(6) {
			case 0:
				p.Vals[f] = float64(r.Range(-4, 12)) / 2
			case 1:
				p.Vals[f] = 0
			default:
				p.Vals[f] = float64(r.Range(-3, 9))
			}
		}
	}
	if d := hk.Pick(r, dimD); d != nil {
		p.Dims["d"] = d
	}
	if g := hk.Pick(r, dimG); g != nil {
		p.Dims["g"] = g
	}
	return p
}

func (p Point) Params() expr.Params { return expr.Map(p.Vals) }
func (p Point) Meta() goexpr.Params { return goexpr.MapParams(p.Dims) }

// JSON renders the point for the model: values as rationals and the ids of the
// IF conditions that hold (evaluated with the real goexpr, the way ifExpr.include does).
func (p Point) JSON() map[string]interface{} {
	vals := map[string]interface{}{}
	for k, v := range p.Vals {
		vals[k] = hk.RatOfFloat(v)
	}
	conds := []int{}
	for i, c := range Conds {
		v := c.Eval(p.Meta())
		if b, ok := v.(bool); ok && b {
			conds = append(conds, i)
		}
	}
	return map[string]interface{}{"vals": vals, "conds": conds}
}
