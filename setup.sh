#!/bin/sh
# Offline build of the verification framework (MANIFEST.setup_cmd).
set -e
cd "$(dirname "$0")"
export GOFLAGS=-mod=mod GOPROXY=off GOSUMDB=off GOTOOLCHAIN=local
mkdir -p bin out evidence replays
(cd tools/extract && go build -o ../../bin/zvextract .)
./bin/zvextract -repo "${ZENO_REPO:-/repo}" -out lean/ZenoModel/Generated >/dev/null || echo "warning: extractor reported problems (checks will report them)"
(cd lean && lake build ZenoModel ZenoModel.AuditTool zmodel)
cp "${ZENO_REPO:-/repo}/go.sum" harness/go.sum
(cd harness && go build -tags verif -o ../bin/zvh ./cmd/zvh)
echo setup done
